#!/venv/bin/python
"""False-alarm test: run the pinned test suite and ALL 20 quick checks against a behaviour-preserving refactoring that lives
in a scratch worktree (VERIF_REPO=<worktree>). Every VIOLATION must be judged: either the refactoring is not preserving after
all (a real difference - then the check is right) or the check demands more than the property (false alarm - fix the check).
usage: eval_refactor.py <worktree> [--jobs 5] [--props C01,C02] [--seed 1]"""
from __future__ import annotations

import argparse
import os
import subprocess
import sys
import tempfile
import time
from concurrent.futures import ThreadPoolExecutor
from pathlib import Path

VERIF = Path(__file__).resolve().parent.parent


def main():
    ap = argparse.ArgumentParser()
    ap.add_argument("worktree")
    ap.add_argument("--jobs", type=int, default=5)
    ap.add_argument("--props", default="")
    ap.add_argument("--seed", default="1")
    a = ap.parse_args()
    wt = Path(a.worktree).resolve()
    r = subprocess.run(["bash", str(VERIF / "tools" / "run_tests_in.sh"), str(wt)], capture_output=True, text=True)
    print("tests:", (r.stdout.strip().splitlines() or ["?"])[-1])
    props = a.props.split(",") if a.props else [f"C{i:02d}" for i in range(1, 21)]
    tmp = Path(tempfile.mkdtemp(prefix="curies-refac-"))

    def run(pid):
        env = dict(os.environ, VERIF_REPO=str(wt), VERIF_SEED=a.seed, VERIF_EVIDENCE_DIR=str(tmp / "ev"), VERIF_REPLAY_DIR=str(tmp / "rp" / pid))
        t0 = time.time()
        p = subprocess.run([str(VERIF / "check"), pid, "quick"], env=env, capture_output=True, text=True)
        msg = next((l for l in p.stdout.splitlines() if l.startswith("violation in")), "")
        case = next((l for l in p.stdout.splitlines() if l.startswith("minimal case")), "")
        err = (p.stderr.strip().splitlines() or [""])[-1] if p.returncode == 2 else ""
        return pid, p.returncode, round(time.time() - t0, 1), msg[:400], case[:600], err[:300]

    bad = 0
    with ThreadPoolExecutor(a.jobs) as ex:
        for pid, rc, wall, msg, case, err in ex.map(run, props):
            bad += rc != 0
            print(f"{pid} rc={rc} {wall}s {msg} {err}")
            if rc == 1:
                print("    ", case)
    print(f"{bad} checks not quiet")
    return 1 if bad else 0


if __name__ == "__main__":
    sys.exit(main())
