#!/venv/bin/python
"""Regenerate MANIFEST.json from the table below and the property modules that exist. Run after adding a check."""
import json
from pathlib import Path

VERIF = Path(__file__).resolve().parent.parent
props = [json.loads(l) for l in (VERIF / "properties.jsonl").read_text().splitlines() if l.strip()]

# id -> (technique, level text, level note, DESIGN section)
TABLE = {
    "C01": (
        "Hypothesis property test, differential against a naive longest-match reference model, over generated prefix lattices and boundary probes; four construction orders per converter",
        "Generated-input exploration: thousands of converters with nested / overlapping / one-character-different URI prefixes (incl. the empty one) are probed around every prefix boundary and every answer of parse_uri / compress / is_uri is compared with an independent linear-scan model on four differently ordered constructions. This finds wrong-match, off-by-one and stale-index defects; it does not prove absence.",
        "Trusts the 30-line reference model in pbt/model.py and Hypothesis' generation; small alphabets plus long realistic URL prefixes stand in for all strings.",
    ),
    "C02": (
        "Hypothesis property test, differential against a linear-scan reference model of CURIE parsing/expansion over generated synonym-rich converters and (prefix, identifier) pairs",
        "Generated-input exploration of expand / expand_pair / expand_reference / parse_curie / expand_all / expand_pair_all / is_curie against an independent model (split at the first delimiter, unique owner, canonical URI prefix, synonym multiset). Finds wrong-owner, wrong-split, dropped-synonym and empty-prefix defects; no absence claim.",
        "Trusts pbt/model.py; prefixes are delimiter-free by construction as the property's domain demands.",
    ),
    "C03": (
        "Hypothesis property test with round-trip / metamorphic oracles (compress-expand_all membership, expand∘compress = standardize_uri, bijection on prefix-free maps)",
        "Generated-input exploration of the losslessness and inverse laws over arbitrary lattices and over prefix-free URI prefix sets; the model only decides which precondition applies.",
        "Round-trip oracles are self-relations of the implementation; absolute values are pinned by C01/C02.",
    ),
    "C04": (
        "Hypothesis property test: generated record collections with replacement vs. a clash-set reference model; all loaders; self-synonym records",
        "Generated-input exploration of strict construction through Converter(...), the EPM/prefix-map/priority/reverse/JSON-LD loaders and Record validators: accept iff no string is claimed by two different records, exception type and listing sound and complete, bijective bimap on success.",
        "Trusts pbt/model.py:clash_sets; small pools make clashes of every kind frequent.",
    ),
    "C05": (
        "Hypothesis rule-based state machine (add_record / add_prefix histories) with a reference model for accept/reject/merge and a freshly constructed converter as index oracle, invariant checked after every step",
        "Stateful generated exploration: after every operation of a random history the decision, the records, the five lookup structures and the answers of the query API are compared with the documented rule and with a fresh converter; rejected calls must change nothing.",
        "Trusts pbt/model.py:add_record and Converter.__init__ (itself pinned by C01/C02/C04).",
    ),
    "C06": (
        "Hypothesis property test: model differential plus idempotence / meaning-preservation laws for standardize_prefix / _curie / _uri",
        "Generated-input exploration of the three standardisers against the linear-scan model and the algebraic laws, with a prefix-free arm for the standardize_uri clauses.",
        "Trusts pbt/model.py.",
    ),
    "C07": (
        "Hypothesis property test over deliberately ambiguous converters: equivalences between derived operations and the two primitive parsers, model decides the side",
        "Generated-input exploration of is_uri/compress/parse_uri, is_curie/expand, parse precedence, *_or_standardize, format_curie and *_strict on strings that are CURIE, URI, both, neither, delimiter-free or empty.",
        "Trusts pbt/model.py for which side recognises a string.",
    ),
    "C08": (
        "Hypothesis property test: metamorphic relation between default / passthrough / strict modes of the 14 functions on the same input, with an exception-type whitelist",
        "Generated-input exploration of all mode combinations on success and failure paths (empty, delimiter-free, unknown, arbitrary Unicode): default never raises, passthrough returns input, strict raises only library errors.",
        "Mode relation only; the values are pinned by C01/C02/C06.",
    ),
}

checks, na = [], []
for p in props:
    pid = p["id"]
    mod = VERIF / "pbt" / "props" / f"{pid.lower()}.py"
    if pid in TABLE and mod.exists():
        tech, text, note = TABLE[pid]
        checks.append({
            "property_id": pid,
            "quick_cmd": f"./check {pid} quick",
            "thorough_cmd": f"./check {pid} thorough",
            "evidence_file": f"/verif/evidence/{pid}.json",
            "replay_cmd_template": f"./check {pid} --replay {{path}}",
            "engine": "pbt",
            "level_claimed": {"category": "exploration", "text": text, "design_ref": f"DESIGN.md §5 {pid}"},
            "level_note": note,
            "technique": tech,
        })
    else:
        na.append({"property_id": pid, "reason": "check not built yet in this round (planned: property-based test per DESIGN.md §5); nothing is claimed for it until its check exists"})

manifest = {
    "version": 1,
    "setup_cmd": "bash ./setup.sh",
    "hooks": {
        "guard": "CURIES_VERIF",
        "enable": "no source hooks are needed: every property is observable through the public API; checks import curies from /repo/src (VERIF_REPO overrides the root for the mutant self-test) and export CURIES_VERIF=1 for uniformity",
        "baseline_off_cmd": "bash ./tools/baseline.sh",
        "source_commits": [],
        "add_only": True,
    },
    "engines": [
        {"name": "pbt", "path": "pbt/run.py", "serves_properties": [c["property_id"] for c in checks],
         "kind_free_text": "Hypothesis 6.168 property tests and rule-based state machines against reference models / metamorphic relations; bounded exhaustive enumeration where the domain is finite; atheris fuzz stage in the thorough tier"},
    ],
    "checks": checks,
    "not_applicable": na,
    "notes": "All checks: ./check <ID> quick|thorough, replay with ./check <ID> --replay <file>. Exit 0 held / 1 VIOLATION / 2 harness error. Known findings in known_findings.json.",
}
(VERIF / "MANIFEST.json").write_text(json.dumps(manifest, indent=1) + "\n")
print("claimed:", [c["property_id"] for c in checks], "not yet:", [n["property_id"] for n in na])
