#!/venv/bin/python
"""Regenerate MANIFEST.json from the table below and the property modules that exist. Run after adding a check."""
import json
from pathlib import Path

VERIF = Path(__file__).resolve().parent.parent
props = [json.loads(l) for l in (VERIF / "properties.jsonl").read_text().splitlines() if l.strip()]

# id -> (technique, level text, level note, DESIGN section)
TABLE = {
    "C01": (
        "Hypothesis property test, differential against a naive longest-match reference model, over generated prefix lattices and boundary probes; each converter reached through many histories (orders, incremental, merged, interleaved queries, split-and-merge, loaders); atheris stage in thorough",
        "Generated-input exploration: thousands of converters with nested / overlapping / one-character-different URI prefixes (incl. the empty one) are probed around every prefix boundary and every answer of parse_uri / compress / is_uri is compared with an independent linear-scan model on four differently ordered constructions. This finds wrong-match, off-by-one and stale-index defects; it does not prove absence.",
        "Trusts the 30-line reference model in pbt/model.py and Hypothesis' generation; small alphabets plus long realistic URL prefixes stand in for all strings.",
    ),
    "C02": (
        "Hypothesis property test, differential against a linear-scan reference model of CURIE parsing/expansion over generated synonym-rich converters and (prefix, identifier) pairs",
        "Generated-input exploration of expand / expand_pair / expand_reference / parse_curie / expand_all / expand_pair_all / is_curie against an independent model (split at the first delimiter, unique owner, canonical URI prefix, synonym multiset). Finds wrong-owner, wrong-split, dropped-synonym and empty-prefix defects; no absence claim.",
        "Trusts pbt/model.py; prefixes are delimiter-free by construction as the property's domain demands.",
    ),
    "C03": (
        "Hypothesis property test with round-trip / metamorphic oracles (compress-expand_all membership, expand∘compress = standardize_uri, bijection on prefix-free maps)",
        "Generated-input exploration of the losslessness and inverse laws over arbitrary lattices and over prefix-free URI prefix sets; the model only decides which precondition applies.",
        "Round-trip oracles are self-relations of the implementation; absolute values are pinned by C01/C02.",
    ),
    "C04": (
        "Hypothesis property test: generated record collections with replacement vs. a clash-set reference model; all loaders; self-synonym records",
        "Generated-input exploration of strict construction through Converter(...), the EPM/prefix-map/priority/reverse/JSON-LD loaders and Record validators: accept iff no string is claimed by two different records, exception type and listing sound and complete, bijective bimap on success.",
        "Trusts pbt/model.py:clash_sets; small pools make clashes of every kind frequent.",
    ),
    "C05": (
        "Hypothesis rule-based state machine (add_record / add_prefix histories) with a reference model for accept/reject/merge and a freshly constructed converter as index oracle, invariant checked after every step",
        "Stateful generated exploration: after every operation of a random history the decision, the records, the five lookup structures and the answers of the query API are compared with the documented rule and with a fresh converter; rejected calls must change nothing.",
        "Trusts pbt/model.py:add_record and Converter.__init__ (itself pinned by C01/C02/C04).",
    ),
    "C06": (
        "Hypothesis property test: model differential plus idempotence / meaning-preservation laws for standardize_prefix / _curie / _uri",
        "Generated-input exploration of the three standardisers against the linear-scan model and the algebraic laws, with a prefix-free arm for the standardize_uri clauses.",
        "Trusts pbt/model.py.",
    ),
    "C07": (
        "Hypothesis property test over deliberately ambiguous converters: equivalences between derived operations and the two primitive parsers, model decides the side",
        "Generated-input exploration of is_uri/compress/parse_uri, is_curie/expand, parse precedence, *_or_standardize, format_curie and *_strict on strings that are CURIE, URI, both, neither, delimiter-free or empty.",
        "Trusts pbt/model.py for which side recognises a string.",
    ),
    "C08": (
        "Hypothesis property test: metamorphic relation between default / passthrough / strict modes of the 14 functions on the same input, with an exception-type whitelist, on converters reached through several build histories; atheris stage in thorough",
        "Generated-input exploration of all mode combinations on success and failure paths (empty, delimiter-free, unknown, arbitrary Unicode): default never raises, passthrough returns input, strict raises only library errors.",
        "Mode relation only; the values are pinned by C01/C02/C06.",
    ),
    "C09": (
        "Hypothesis property test: chain vs. a reference fold of the documented add_record(merge=True) rule plus set-level laws; get_subconverter vs. an exact restriction model",
        "Generated-input exploration over 1-4 overlapping converters (shared prefixes, synonym-only and case-only overlap, bridges) in both case modes: ValueError iff the model fold meets a bridge, union / co-membership / priority laws, exact records, C04/C05 consistency of the result; restriction laws for get_subconverter.",
        "Trusts pbt/model.py:add_record; default delimiter only (neither function propagates one).",
    ),
    "C10": (
        "Hypothesis rule-based state machine over a pool of converters with deep observation snapshots; invariant 'every input equals its snapshot' after each derivation / follow-up mutation",
        "Stateful generated exploration of chain, get_subconverter, remap_curie_prefixes, remap_uri_prefixes, rewire, discover(converter=) and later add_prefix/add_record(merge=True) on derived converters; inputs are re-observed (records, views, five lookup tables, query answers) after every step, also when the derivation raises.",
        "Observation is finite (records, views, lookups, answers on boundary probes); no model of what the derivations should produce (C09/C11/C12).",
    ),
    "C11": (
        "Hypothesis property test: invariants from the statement for every outcome, justified-error check, and an exact sequential model when keys and values are disjoint",
        "Generated-input exploration of remap_curie_prefixes over canonical / synonym / unknown keys with unused, own-synonym, foreign and chained targets (full chains, partially applicable chains, swaps): documented errors only and only when justified, record count and URI sides preserved, nothing lost or invented, applicable pairs applied, clashes skipped.",
        "Trusts the invariants as transcribed from the statement; patterns not asserted.",
    ),
    "C12": (
        "Hypothesis property test: exact per-record model for injective URI remappings / rewirings (tolerant where a record matches several keys), TransitiveError iff-clause, rewire idempotence",
        "Generated-input exploration of remap_uri_prefixes and rewire over injective mappings built by construction, plus a non-injective arm for the TransitiveError clause.",
        "Ownership of mapped values is judged on the original converter, as the statement words it.",
    ),
    "C13": (
        "Hypothesis property tests per loader: expected record list derived from the input by the documented rule, behaviour vs. reference model, dictionary-order and str/Path/object metamorphic relations",
        "Generated-input exploration of the seven loaders (prefix map, priority map, reverse map, EPM, JSON-LD with ignored terms, rdflib graphs/managers, upgrade_prefix_map) over small-alphabet and arbitrary Unicode strings, every input shuffled and every JSON input also loaded from a temp file by str and by Path.",
        "Remote URLs cannot be loaded offline; rdflib's namespaces() is the oracle for from_rdflib.",
    ),
    "C14": (
        "Hypothesis round-trip property tests per format (EPM, JSON-LD plain/expanded, SHACL via rdflib, TSV via csv) with the alphabets the statement allows",
        "Generated-input exploration: write to a temp file, load back, compare records (EPM) or bimap / prefix_map / pattern_map (JSON-LD, SHACL, TSV), with and without synonyms, backslash-rich patterns and prefixes, arbitrary Unicode for EPM.",
        "rdflib's Turtle parser and the csv module are trusted readers.",
    ),
    "C15": (
        "Hypothesis property tests: round trips (from_curie, string validation, JSON, from_reference, triple files), equality/hash/order laws against plain tuples, immutability, converter-context standardisation vs. reference model",
        "Generated-input exploration over the four reference classes with colliding pairs and differing names, identifiers containing separators / CSV-sensitive characters, converters as validation context, .tsv and .tsv.gz triple files.",
        "Laws are checked on lists of up to 7 references; pydantic is trusted for model plumbing.",
    ),
    "C16": (
        "Hypothesis differential test: bulk pandas / file operations vs. the scalar method cell by cell; fault injection (failing cell, short row, empty row at generated positions) with byte comparison for atomicity",
        "Generated-input exploration of pd_compress / pd_expand / pd_standardize_* and file_compress / file_expand over tables with quoting-sensitive cells, all flag combinations, target columns, headers and separators; when a call raises the file must be byte-identical.",
        "The scalar methods are the oracle (pinned by C01-C08); input files are well-formed CSV written with newline=''.",
    ),
    "C17": (
        "Hypothesis differential test: in-process Flask test client vs. Starlette TestClient vs. reference model of expand, over generated converters and request paths, incl. converters extended after the apps were built and sibling converters sharing records",
        "Generated-input exploration of GET /<prefix><delimiter><identifier> on both frameworks with identifiers containing '/' and the delimiter, synonym / unknown / case-varied prefixes, delimiters ':' and '/': status and Location must equal the model and each other.",
        "In-process test clients; characters restricted to those neither framework percent-encodes.",
    ),
    "C18": (
        "Hypothesis property tests: SPARQL result sets vs. reference model over query shapes, lookup sequences and multi-URI VALUES blocks on one graph, converters extended after the graph was built; Flask GET/POST and FastAPI GET with independent JSON/XML/CSV readers; Accept negotiation vs. an RFC 7231 oracle",
        "Generated-input exploration at graph level (VALUES inside/after WHERE, both binding directions, configured / other predicates, invalid-IRI synonyms), at HTTP level (three transports, negotiated content type) and of handle_header over grammar-generated Accept headers with q-values and optional whitespace.",
        "FastAPI POST is not exercised (python-multipart absent; import shim only allows building the app). rdflib's SPARQL engine is trusted.",
    ),
    "C19": (
        "Hypothesis property test: discover vs. a 15-line re-implementation of the documented algorithm plus metamorphic relations (order/repetition invariance, converter filtering = pre-filtering, learned URIs round-trip)",
        "Generated-input exploration over URI multisets from a stem x delimiter x tail lattice (nested discovered prefixes common), delimiter lists, cutoffs, metaprefixes, optional pre-existing converter. One open known finding (hard-coded GitHub-issues skip) is excluded by construction, probed on every run and its neighbourhood is generated.",
        "Trusts the model; 'cutoff' means at least cutoff identifiers, as the statement says.",
    ),
    "C20": (
        "Bounded exhaustive enumeration (all strings up to length 6 / 7 over one representative per character class, 16 processes), a complete sweep of all Unicode scalar values in seven positions, plus Hypothesis random longer strings, all against a regex-free transcription of the grammar",
        "Complete for the stated alphabet up to the length bound (8.1 M strings quick, 113.5 M thorough); exploration beyond it. Both validators are compared with a hand-written predicate on every string.",
        "Representatives stand for their character classes; the random arm samples other members (other whitespace, digits, letters, Unicode).",
    ),
}

checks, na = [], []
for p in props:
    pid = p["id"]
    mod = VERIF / "pbt" / "props" / f"{pid.lower()}.py"
    if pid in TABLE and mod.exists():
        tech, text, note = TABLE[pid]
        checks.append({
            "property_id": pid,
            "quick_cmd": f"./check {pid} quick",
            "thorough_cmd": f"./check {pid} thorough",
            "evidence_file": f"/verif/evidence/{pid}.json",
            "replay_cmd_template": f"./check {pid} --replay {{path}}",
            "engine": "pbt",
            "level_claimed": {"category": "exploration", "text": text, "design_ref": f"DESIGN.md §5 {pid}"},
            "level_note": note,
            "technique": tech,
        })
    else:
        na.append({"property_id": pid, "reason": "check not built yet in this round (planned: property-based test per DESIGN.md §5); nothing is claimed for it until its check exists"})

manifest = {
    "version": 1,
    "setup_cmd": "bash ./setup.sh",
    "hooks": {
        "guard": "CURIES_VERIF",
        "enable": "no source hooks are needed: every property is observable through the public API; checks import curies from /repo/src (VERIF_REPO overrides the root for the mutant self-test) and export CURIES_VERIF=1 for uniformity",
        "baseline_off_cmd": "bash ./tools/baseline.sh",
        "source_commits": [],
        "add_only": True,
    },
    "engines": [
        {"name": "pbt", "path": "pbt/run.py", "serves_properties": [c["property_id"] for c in checks],
         "kind_free_text": "Hypothesis 6.168 property tests and rule-based state machines against reference models / metamorphic relations; bounded exhaustive enumeration where the domain is finite; atheris fuzz stage in the thorough tier"},
    ],
    "checks": checks,
    "not_applicable": na,
    "notes": "All checks: ./check <ID> quick|thorough, replay with ./check <ID> --replay <file>. Exit 0 held / 1 VIOLATION / 2 harness error. Known findings in known_findings.json (open: C19 D10, C17 D12/D13; eleven fixed by fix: commits in /repo). Sensitivity: mutants/selftest.py (54 hand-made mutants) and tools/eval_all_seeded.py (100 independently seeded changes); tools/eval_refactor_batch.py / refactorings/ (40 property-preserving rewrites, all checks quiet), all caught by the quick tier without the regression corpus.",
}
(VERIF / "MANIFEST.json").write_text(json.dumps(manifest, indent=1) + "\n")
print("claimed:", [c["property_id"] for c in checks], "not yet:", [n["property_id"] for n in na])
