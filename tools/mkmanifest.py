#!/venv/bin/python
"""Regenerate MANIFEST.json from the table below and the property modules that exist. Run after adding a check."""
import json
from pathlib import Path

VERIF = Path(__file__).resolve().parent.parent
props = [json.loads(l) for l in (VERIF / "properties.jsonl").read_text().splitlines() if l.strip()]

# id -> (technique, level text, level note, DESIGN section)
TABLE = {
    "C01": (
        "Hypothesis property test, differential against a naive longest-match reference model, over generated prefix lattices and boundary probes; four construction orders per converter",
        "Generated-input exploration: thousands of converters with nested / overlapping / one-character-different URI prefixes (incl. the empty one) are probed around every prefix boundary and every answer of parse_uri / compress / is_uri is compared with an independent linear-scan model on four differently ordered constructions. This finds wrong-match, off-by-one and stale-index defects; it does not prove absence.",
        "Trusts the 30-line reference model in pbt/model.py and Hypothesis' generation; small alphabets plus long realistic URL prefixes stand in for all strings.",
    ),
}

checks, na = [], []
for p in props:
    pid = p["id"]
    mod = VERIF / "pbt" / "props" / f"{pid.lower()}.py"
    if pid in TABLE and mod.exists():
        tech, text, note = TABLE[pid]
        checks.append({
            "property_id": pid,
            "quick_cmd": f"./check {pid} quick",
            "thorough_cmd": f"./check {pid} thorough",
            "evidence_file": f"/verif/evidence/{pid}.json",
            "replay_cmd_template": f"./check {pid} --replay {{path}}",
            "engine": "pbt",
            "level_claimed": {"category": "exploration", "text": text, "design_ref": f"DESIGN.md §5 {pid}"},
            "level_note": note,
            "technique": tech,
        })
    else:
        na.append({"property_id": pid, "reason": "check not built yet in this round (planned: property-based test per DESIGN.md §5); nothing is claimed for it until its check exists"})

manifest = {
    "version": 1,
    "setup_cmd": "bash ./setup.sh",
    "hooks": {
        "guard": "CURIES_VERIF",
        "enable": "no source hooks are needed: every property is observable through the public API; checks import curies from /repo/src (VERIF_REPO overrides the root for the mutant self-test) and export CURIES_VERIF=1 for uniformity",
        "baseline_off_cmd": "bash ./tools/baseline.sh",
        "source_commits": [],
        "add_only": True,
    },
    "engines": [
        {"name": "pbt", "path": "pbt/run.py", "serves_properties": [c["property_id"] for c in checks],
         "kind_free_text": "Hypothesis 6.168 property tests and rule-based state machines against reference models / metamorphic relations; bounded exhaustive enumeration where the domain is finite; atheris fuzz stage in the thorough tier"},
    ],
    "checks": checks,
    "not_applicable": na,
    "notes": "All checks: ./check <ID> quick|thorough, replay with ./check <ID> --replay <file>. Exit 0 held / 1 VIOLATION / 2 harness error. Known findings in known_findings.json.",
}
(VERIF / "MANIFEST.json").write_text(json.dumps(manifest, indent=1) + "\n")
print("claimed:", [c["property_id"] for c in checks], "not yet:", [n["property_id"] for n in na])
