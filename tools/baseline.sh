#!/usr/bin/env bash
# Runs the repository's pinned test suite with the (unused) guard OFF and compares with BASELINE.json's stable_pass.
set -u
unset CURIES_VERIF
out="$(mktemp -d)"
trap 'rm -rf "$out"' EXIT
cd /repo && /venv/bin/python -m pytest -ra -q -p no:cacheprovider --timeout=900 --continue-on-collection-errors --junitxml="$out/j.xml" >"$out/log" 2>&1
/venv/bin/python - "$out/j.xml" <<'PY'
import json, sys, xml.etree.ElementTree as ET
base = json.load(open("/root/.vp/BASELINE.json"))
want = set(base["stable_pass"])
passed = set()
for tc in ET.parse(sys.argv[1]).getroot().iter("testcase"):
    if not any(ch.tag in ("failure", "error", "skipped") for ch in tc):
        passed.add(f"{tc.get('classname')}::{tc.get('name')}")
missing = sorted(want - passed)
print(f"baseline: {len(want & passed)}/{len(want)} stable tests pass")
for m in missing:
    print("MISSING", m)
sys.exit(1 if missing else 0)
PY
