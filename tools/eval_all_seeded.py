#!/venv/bin/python
"""Regression of detection power: apply every stored seeded change (seeded/*/patch.diff) to a scratch worktree of /repo HEAD
(outside /repo and /verif), run the owning property's quick check with VERIF_REPO=<scratch> and the corpus switched off,
expect exit 1 + VIOLATION. usage: eval_all_seeded.py [--jobs 6] [--only s1-C01,...] [--tier quick]"""
from __future__ import annotations

import argparse
import json
import os
import shutil
import subprocess
import sys
import tempfile
import time
from concurrent.futures import ThreadPoolExecutor
from pathlib import Path

VERIF = Path(__file__).resolve().parent.parent
SAVE_CORPUS = False


def one(name, tier):
    d = VERIF / "seeded" / name
    meta = json.loads((d / "meta.json").read_text())
    tmp = Path(tempfile.mkdtemp(prefix="curies-seeded-"))
    wt = tmp / "wt"
    try:
        r = subprocess.run(["git", "-C", "/repo", "worktree", "add", "--detach", str(wt), "HEAD"], capture_output=True, text=True)
        if r.returncode:
            return name, meta["property"], "ERROR worktree", 0, ""
        r = subprocess.run(["git", "-C", str(wt), "apply", str(d / "patch.diff")], capture_output=True, text=True)
        if r.returncode:
            return name, meta["property"], "ERROR patch does not apply", 0, r.stderr[:200]
        env = dict(os.environ, VERIF_REPO=str(wt), VERIF_NO_CORPUS="1", VERIF_EVIDENCE_DIR=str(tmp / "ev"), VERIF_REPLAY_DIR=str(tmp / "rp"))
        t0 = time.time()
        p = subprocess.run([str(VERIF / "check"), meta["property"], tier], env=env, capture_output=True, text=True)
        viol = any(l.startswith("VIOLATION") for l in p.stdout.splitlines())
        if viol and SAVE_CORPUS:
            # keep the minimised failing case as a permanent regression input (it passes on the real tree)
            rp = next(l for l in p.stdout.splitlines() if l.startswith("VIOLATION")).split("replay=", 1)[1].strip()
            body = json.loads(Path(rp).read_text())
            body["message"] = f"minimal case found when the seeded change {name} was applied: " + body.get("message", "")[:300]
            dest = VERIF / "corpus" / meta["property"]
            dest.mkdir(parents=True, exist_ok=True)
            (dest / f"seed-{name}.json").write_text(json.dumps(body, indent=1, sort_keys=True))
        msg = next((l for l in p.stdout.splitlines() if l.startswith("violation in")), (p.stderr.strip().splitlines() or [""])[-1])
        return name, meta["property"], "CAUGHT" if (p.returncode == 1 and viol) else f"MISSED exit={p.returncode}", round(time.time() - t0, 1), msg[:150]
    finally:
        subprocess.run(["git", "-C", "/repo", "worktree", "remove", "--force", str(wt)], capture_output=True)
        shutil.rmtree(tmp, ignore_errors=True)


def main():
    ap = argparse.ArgumentParser()
    ap.add_argument("--jobs", type=int, default=6)
    ap.add_argument("--only", default="")
    ap.add_argument("--tier", default="quick")
    ap.add_argument("--save-corpus", action="store_true")
    a = ap.parse_args()
    global SAVE_CORPUS
    SAVE_CORPUS = a.save_corpus
    names = sorted(p.name for p in (VERIF / "seeded").iterdir() if (p / "patch.diff").exists())
    if a.only:
        names = [n for n in names if n in a.only.split(",")]
    missed = 0
    with ThreadPoolExecutor(a.jobs) as ex:
        for name, prop, res, wall, msg in ex.map(lambda n: one(n, a.tier), names):
            missed += not res.startswith("CAUGHT")
            print(f"{res:8s} {name} {prop} {wall}s :: {msg}", flush=True)
    print(f"{len(names)} seeded changes, {missed} not caught")
    return 1 if missed else 0


if __name__ == "__main__":
    sys.exit(main())
