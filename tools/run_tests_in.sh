#!/usr/bin/env bash
# usage: run_tests.sh <worktree>   -- runs the repository's pinned test suite against the worktree's sources
wt="$(cd "$1" && pwd)"
cd "$wt" && PYTHONPATH="$wt/src" /venv/bin/python -m pytest -q -p no:cacheprovider tests \
  --deselect tests/test_api.py::TestConverter::test_bioregistry \
  --deselect tests/test_api.py::TestConverter::test_from_github \
  --deselect tests/test_api.py::TestConverter::test_go_registry \
  --deselect tests/test_api.py::TestConverter::test_monarch \
  --deselect tests/test_api.py::TestConverter::test_obo \
  --deselect tests/test_discovery.py::TestDiscovery::test_remote \
  --deselect tests/test_mapping_service.py::TestFastAPIMappingApp \
  --deselect tests/test_mapping_service.py::TestUtils::test_availability 2>&1 | tail -5
