#!/usr/bin/env bash
# run every check's quick (or given) tier sequentially with the given seeds; print one line per run
tier="${1:-quick}"; shift || true
seeds="${*:-1}"
cd "$(dirname "$0")/.."
for s in $seeds; do
  for i in $(seq -w 1 20); do
    id="C$i"
    out=$(VERIF_SEED=$s ./check $id $tier 2>&1); rc=$?
    echo "seed=$s $id rc=$rc $(echo "$out" | grep -E '^(OK|VIOLATION|HARNESS|KNOWN)' | tr '\n' ' ' | cut -c1-260)"
  done
done
