#!/venv/bin/python
"""Run all 20 quick checks against many refactored worktrees with one global worker pool.
usage: eval_refactor_batch.py <worktree> [<worktree> ...] [--jobs=14] [--props=C17,C18]  (or PROPS=C17,C18 in the environment)"""
import os, subprocess, sys, tempfile, time
from concurrent.futures import ThreadPoolExecutor
from pathlib import Path
VERIF = Path(__file__).resolve().parent.parent
args = [a for a in sys.argv[1:] if not a.startswith("--")]
jobs = int(next((a.split("=")[1] for a in sys.argv[1:] if a.startswith("--jobs=")), "14"))
tmp = Path(tempfile.mkdtemp(prefix="curies-refbatch-"))
props = next((a.split("=")[1] for a in sys.argv[1:] if a.startswith("--props=")), os.environ.get("PROPS", "")).split(",")
props = [p for p in props if p] or [f"C{i:02d}" for i in range(1, 21)]
tasks = [(Path(w).resolve(), pid) for w in args for pid in props]
for w in args:
    r = subprocess.run(["bash", str(VERIF / "tools" / "run_tests_in.sh"), str(Path(w).resolve())], capture_output=True, text=True)
    print(Path(w).name, "tests:", (r.stdout.strip().splitlines() or ["?"])[-1][:60], flush=True)
def run(t):
    wt, pid = t
    env = dict(os.environ, VERIF_REPO=str(wt), VERIF_EVIDENCE_DIR=str(tmp / wt.name / "ev"), VERIF_REPLAY_DIR=str(tmp / wt.name / "rp"))
    t0 = time.time()
    p = subprocess.run([str(VERIF / "check"), pid, "quick"], env=env, capture_output=True, text=True)
    msg = next((l for l in p.stdout.splitlines() if l.startswith("violation in")), "")
    case = next((l for l in p.stdout.splitlines() if l.startswith("minimal case")), "")
    err = (p.stderr.strip().splitlines() or [""])[-1] if p.returncode == 2 else ""
    return wt.name, pid, p.returncode, round(time.time() - t0, 1), msg[:500], case[:700], err[:300]
bad = 0
with ThreadPoolExecutor(jobs) as ex:
    for name, pid, rc, wall, msg, case, err in ex.map(run, tasks):
        if rc != 0:
            bad += 1
            print(f"NOT-QUIET {name} {pid} rc={rc} {wall}s {msg} {err}\n      {case}", flush=True)
print(f"{len(tasks)} check runs, {bad} not quiet")
