#!/venv/bin/python
"""store_round.py <round-number> <needs.json> [origin text]: copy patch/demo/notes of /tmp/seed/Cxx and the evaluation in
/tmp/seedeval/Cxx.json into /verif/seeded/s<round>-Cxx/ (needs.json: {"01": "what it needs to manifest", ...})."""
import json, subprocess, sys
from pathlib import Path
rnd, needs = sys.argv[1], json.load(open(sys.argv[2]))
origin = sys.argv[3] if len(sys.argv) > 3 else f"fresh sub-agent given only the property text (with one part of it named as focus) and a scratch worktree of /repo HEAD (round {rnd})"
for i, need in sorted(needs.items()):
    wt = Path(f"/tmp/seed/C{i}")
    d = Path(f"/verif/seeded/s{rnd}-C{i}")
    patch = subprocess.check_output(["git", "-C", str(wt), "diff", "--", "src"], text=True)
    if not patch.strip():
        print(i, "NO PATCH"); continue
    m = json.load(open(f"/tmp/seedeval/C{i}.json"))
    d.mkdir(parents=True, exist_ok=True)
    (d / "patch.diff").write_text(patch)
    if (wt / "demo.py").exists():
        (d / "demo.py").write_text((wt / "demo.py").read_text())
    meta = {
        "name": f"s{rnd}-C{i}", "property": f"C{i}", "origin": origin, "needs_to_manifest": need,
        "confirmed": {"applies_to_repo_head": True, "existing_tests_with_patch": m.get("tests_with_patch"), "demo_exit_without_patch": m.get("demo_without_patch_exit"), "demo_exit_with_patch": m.get("demo_with_patch_exit")},
        "what_i_ran": "tools/eval_seed.py: patch applied in a scratch worktree of /repo HEAD (outside /repo and /verif), pinned test suite, demo with/without patch, then the registered quick check with VERIF_REPO=<scratch> VERIF_NO_CORPUS=1",
        "checks": m["ran"], "detected": m["detected"],
        "agent_notes": (wt / "NOTES.md").read_text()[:3000] if (wt / "NOTES.md").exists() else "",
    }
    (d / "meta.json").write_text(json.dumps(meta, indent=1) + "\n")
    print(i, m["detected"], m.get("demo_without_patch_exit"), m.get("demo_with_patch_exit"), str(m.get("tests_with_patch", ""))[:12], [(r["exit"], r["wall_s"]) for r in m["ran"]])
