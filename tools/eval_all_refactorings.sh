#!/usr/bin/env bash
# apply each stored refactoring to a scratch worktree of /repo HEAD (outside /repo and /verif) and require all 20 quick checks to stay quiet
cd "$(dirname "$0")/.."
base=$(mktemp -d -t curies-refall-XXXX)
wts=()
for d in refactorings/*/; do
  k=$(basename "$d"); [ -f "$d/patch.diff" ] || continue
  git -C /repo worktree add -q --detach "$base/$k" HEAD && git -C "$base/$k" apply "$PWD/$d/patch.diff" || { echo "$k: patch does not apply"; continue; }
  wts+=("$base/$k")
done
/venv/bin/python tools/eval_refactor_batch.py "${wts[@]}" --jobs="${JOBS:-14}" | grep -E "NOT-QUIET|check runs|^      "
for w in "${wts[@]}"; do git -C /repo worktree remove --force "$w"; done
rm -rf "$base"
