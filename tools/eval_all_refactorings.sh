#!/usr/bin/env bash
# apply each stored refactoring to a scratch worktree of /repo HEAD (outside /repo and /verif) and require all 20 quick checks to stay quiet
cd "$(dirname "$0")/.."
rc=0
for d in refactorings/R*/; do
  k=$(basename "$d"); tmp=$(mktemp -d -t curies-refac-XXXX)
  git -C /repo worktree add -q --detach "$tmp/wt" HEAD && git -C "$tmp/wt" apply "$PWD/$d/patch.diff" || { echo "$k: patch does not apply"; rc=1; }
  echo "== $k"; /venv/bin/python tools/eval_refactor.py "$tmp/wt" --jobs "${JOBS:-6}" | grep -E "^tests|rc=[12]|not quiet" || true
  git -C /repo worktree remove --force "$tmp/wt"; rm -rf "$tmp"
done
exit $rc
