#!/usr/bin/env bash
# soak.sh <tier> <first-seed> <last-seed> [parallel]  -- run every check at many seeds, print only non-OK lines + summary
tier="${1:-quick}"; a="${2:-3}"; b="${3:-6}"; par="${4:-8}"
cd "$(dirname "$0")/.."
# evidence files would race between parallel runs of the same property: run different properties in parallel, seeds sequentially
run_prop() { id="$1"; tier="$2"; a="$3"; b="$4"; for s in $(seq "$a" "$b"); do out=$(VERIF_SEED=$s ./check "$id" "$tier" 2>&1); rc=$?; line=$(echo "$out" | grep -E '^(OK|VIOLATION|HARNESS)' | head -1 | cut -c1-220); echo "seed=$s $id rc=$rc $line"; if [ $rc -ne 0 ]; then echo "$out" | head -20; fi; done; }
export -f run_prop
seq -w 1 20 | sed 's/^/C/' | xargs -P "$par" -I{} bash -c "run_prop {} $tier $a $b" | tee soak.log | grep -v " rc=0 " ; nz=$(grep ' rc=' soak.log | grep -vc ' rc=0 '); echo "runs: $(grep -c ' rc=' soak.log)  non-zero: $nz"; [ "$nz" -eq 0 ]
