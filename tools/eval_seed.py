#!/venv/bin/python
"""Evaluate one seeded change produced by a bug-seeder sub-agent.

usage: eval_seed.py <name> <property-id> <agent-worktree> [--props C01,C05] [--tier quick] [--keep]

Steps (all in a scratch copy of /repo HEAD under a temp dir, never in /repo):
  1. take `git diff -- src` of the agent's worktree as patch.diff
  2. confirm: demo passes without the patch, fails with it; the pinned test suite passes with it
  3. run the registered quick check(s) with VERIF_REPO=<scratch> and record exit code / message
  4. with --keep: store patch.diff, demo.py, meta.json under /verif/seeded/<name>/
"""
from __future__ import annotations

import argparse
import json
import os
import shutil
import subprocess
import sys
import tempfile
import time
from pathlib import Path

VERIF = Path(__file__).resolve().parent.parent


def sh(cmd, **kw):
    return subprocess.run(cmd, capture_output=True, text=True, **kw)


def main():
    ap = argparse.ArgumentParser()
    ap.add_argument("name")
    ap.add_argument("prop")
    ap.add_argument("worktree")
    ap.add_argument("--props", default="")
    ap.add_argument("--tier", default="quick")
    ap.add_argument("--keep", action="store_true")
    ap.add_argument("--seeds", default="1")
    ap.add_argument("--needs", default="")
    a = ap.parse_args()
    wt = Path(a.worktree)
    patch = sh(["git", "-C", str(wt), "diff", "--", "src"]).stdout
    if not patch.strip():
        print("no diff in", wt)
        return 2
    demo_src = (wt / "demo.py").read_text() if (wt / "demo.py").exists() else None
    notes = (wt / "NOTES.md").read_text() if (wt / "NOTES.md").exists() else ""
    tmp = Path(tempfile.mkdtemp(prefix="curies-seed-"))
    meta = {"name": a.name, "property": a.prop, "ran": []}
    try:
        r = sh(["git", "-C", "/repo", "worktree", "add", "--detach", str(tmp / "wt"), "HEAD"])
        if r.returncode:
            print(r.stderr)
            return 2
        scratch = tmp / "wt"
        env = dict(os.environ, PYTHONPATH=str(scratch / "src"), PYTHONDONTWRITEBYTECODE="1")
        if demo_src is not None:
            (tmp / "demo.py").write_text(demo_src.replace(str(wt), str(scratch)))
            r0 = sh(["/venv/bin/python", str(tmp / "demo.py")], env=env, cwd=tmp)
            meta["demo_without_patch_exit"] = r0.returncode
        (tmp / "patch.diff").write_text(patch)
        r = sh(["git", "-C", str(scratch), "apply", str(tmp / "patch.diff")])
        if r.returncode:
            print("patch does not apply:", r.stderr)
            return 2
        if demo_src is not None:
            r1 = sh(["/venv/bin/python", str(tmp / "demo.py")], env=env, cwd=tmp)
            meta["demo_with_patch_exit"] = r1.returncode
            meta["demo_with_patch_tail"] = (r1.stderr or r1.stdout).strip().splitlines()[-1:] if (r1.stderr or r1.stdout).strip() else []
        rt = sh(["/tmp/seed/run_tests.sh", str(scratch)]) if Path("/tmp/seed/run_tests.sh").exists() else sh(["bash", str(VERIF / "tools" / "run_tests_in.sh"), str(scratch)])
        meta["tests_with_patch"] = rt.stdout.strip().splitlines()[-1] if rt.stdout.strip() else rt.stderr[-200:]
        props = [p for p in (a.props.split(",") if a.props else [a.prop]) if p]
        detected = False
        for pid in props:
            for seed in a.seeds.split(","):
                t0 = time.time()
                r = sh([str(VERIF / "check"), pid, a.tier], env=dict(os.environ, VERIF_REPO=str(scratch), VERIF_SEED=seed, VERIF_EVIDENCE_DIR=str(tmp / "evidence"), VERIF_REPLAY_DIR=str(tmp / "replays")))
                viol = [l for l in r.stdout.splitlines() if l.startswith("VIOLATION")]
                msg = [l for l in r.stdout.splitlines() if l.startswith("violation in")]
                meta["ran"].append({"check": f"./check {pid} {a.tier}", "seed": int(seed), "exit": r.returncode, "violation_line": bool(viol), "wall_s": round(time.time() - t0, 1), "message": (msg[0][:400] if msg else (r.stderr.strip().splitlines() or [""])[-1][:300])})
                detected = detected or (r.returncode == 1 and bool(viol))
        meta["detected"] = detected
    finally:
        sh(["git", "-C", "/repo", "worktree", "remove", "--force", str(tmp / "wt")])
        shutil.rmtree(tmp, ignore_errors=True)
    print(json.dumps(meta, indent=1))
    if a.keep:
        d = VERIF / "seeded" / a.name
        d.mkdir(parents=True, exist_ok=True)
        (d / "patch.diff").write_text(patch)
        if demo_src is not None:
            (d / "demo.py").write_text(demo_src)
        meta["needs_to_manifest"] = a.needs
        meta["agent_notes"] = notes[:4000]
        (d / "meta.json").write_text(json.dumps(meta, indent=1) + "\n")
    return 0 if meta.get("detected") else 1


if __name__ == "__main__":
    sys.exit(main())
