"""C17 — the resolver redirects exactly where expand points, on both web frameworks."""

from __future__ import annotations

import warnings

from hypothesis import strategies as st

from pbt import strategies as S
from pbt.common import Stats, Sub, Violation
from pbt.model import Model
from pbt.sut import Converter, mk_record, mk_records

PROPERTY_ID = "C17"
RULE = (
    "Generated: strict converters with non-empty URL-safe CURIE prefixes / synonyms ([A-Za-z0-9._-], at least one "
    "alphanumeric, delimiter-free) and URL-shaped URI prefixes, delimiter ':' or '/'; requests GET "
    "/<prefix><delimiter><identifier> where identifiers are 1-4 non-empty path-safe segments (never '.' or '..') joined by "
    "'/', optionally containing the delimiter; known canonical, known synonym, case-varied and unknown prefixes; in a third of the cases some records are "
    "registered only after the apps were built and had served every request once (the apps hold the converter by reference "
    "and must serve it as it is at request time). Characters "
    "are limited to those neither Werkzeug's redirect nor Starlette's RedirectResponse percent-encodes, so Location is "
    "comparable byte for byte. One evaluation = one request sent to an in-process Flask test client and a Starlette "
    "TestClient (redirects not followed): known prefix -> 302 with Location == model expansion (split at the first "
    "delimiter), unknown -> 422, and both frameworks agree. Non-trivial = identifier contains '/' or the delimiter, or the "
    "prefix is a synonym; distinct by hash of (records, delimiter, request path)."
)
ASSUMPTIONS = [
    "oracle: pbt/model.py expand (split at the first delimiter) + Flask-vs-FastAPI differential",
    "known findings D12 / D13 (framework routes /static/<path> and /docs/oauth2-redirect shadow the CURIEs static/... and docs/oauth2-redirect when the delimiter is '/') are excluded by construction - the generated prefix alphabet cannot spell 'static' or 'docs' - and re-confirmed by directed probes on every run",
    "requests go through the in-process test clients; dot-segment normalisation and percent-encoding by real HTTP clients are outside the statement",
]

SEG_ALPHA = "abAB019._-~"
PREFIX_ALPHA = "abAB01._-"


@st.composite
def cases(draw, tier="quick"):
    d = draw(st.sampled_from([":", ":", "/"]))
    n = draw(st.integers(1, 4))
    # names next to the two known findings (D12: exactly 'static' under Flask, D13: exactly docs/oauth2-redirect under FastAPI)
    # are generated on purpose; the two exact collisions themselves cannot be spelt by this generator
    near = st.sampled_from(["docs", "doc", "statics", "static1", "redoc", "openapi.json", "Static"])
    raw = draw(st.lists(st.one_of(S.txt(PREFIX_ALPHA, min_size=1, max_size=4).map(lambda s: s if any(ch.isalnum() for ch in s) else "p" + s), near), unique=True, min_size=n, max_size=n + 3))
    ups = draw(S.url_pool(n, n + 2))
    n = min(n, len(raw), len(ups))
    recs = [{"prefix": raw[i], "uri_prefix": ups[i], "prefix_synonyms": [], "uri_prefix_synonyms": [], "pattern": None} for i in range(n)]
    for x in raw[n:]:
        recs[draw(st.integers(0, n - 1))]["prefix_synonyms"].append(x)
    for x in ups[n:]:
        recs[draw(st.integers(0, n - 1))]["uri_prefix_synonyms"].append(x)
    known = S.all_prefixes(recs)
    reqs = []
    for _ in range(draw(st.integers(3, 10))):
        mode = draw(st.integers(0, 5))
        if mode <= 2:
            p = draw(st.sampled_from(known))
        elif mode == 3:
            p = draw(st.sampled_from(known)).swapcase()
        else:
            p = draw(st.sampled_from(["zz", "unknown", "x1"]))
        segs = draw(st.lists(S.txt(SEG_ALPHA, min_size=1, max_size=4).map(lambda s: "d" + s if set(s) <= {"."} else s), min_size=1, max_size=4))
        ident = "/".join(segs)
        if d == ":" and draw(st.integers(0, 2)) == 0:
            k = draw(st.integers(0, len(ident)))  # also at position 0: the identifier may START with the delimiter
            ident = ident[:k] + ":" + ident[k:]
            if ident.endswith(":") and draw(st.booleans()):
                ident += "z"
            if draw(st.integers(0, 3)) == 0:  # a second delimiter somewhere else
                j = draw(st.integers(0, len(ident)))
                ident = ident[:j] + ":" + ident[j:]
            if ident.endswith(":"):
                ident += "z"  # keep the last segment non-empty
        reqs.append([p, ident])
    # "late": how many of the records (with all their synonyms) are registered only AFTER the apps have been built and
    # have already served every request once - the apps must serve their converter as it is at request time
    late = min(draw(st.sampled_from([0, 0, 1, 2])), n)
    # "late_style": how the late records arrive. 0 = name by name; 1 = the bare canonical pair first, then ONE merged record
    # that is spelt with a secondary URI prefix as its own canonical one and carries the CURIE synonyms as synonyms
    # (the merge must file every incoming name under the record it joins). Late records then get a synonym on both sides.
    late_style = draw(st.integers(0, 1)) if late else 0
    if late_style:
        taken_p, taken_u = set(S.all_prefixes(recs)), {u for r in recs for u in [r["uri_prefix"], *r["uri_prefix_synonyms"]]}
        for i, r in enumerate(recs[n - late:]):
            if not r["prefix_synonyms"] and f"late{i}" not in taken_p:
                r["prefix_synonyms"].append(f"late{i}")
            if not r["uri_prefix_synonyms"] and r["uri_prefix"] + "late/" not in taken_u:
                r["uri_prefix_synonyms"].append(r["uri_prefix"] + "late/")
        known = S.all_prefixes(recs)
        for r in recs[n - late:]:
            for syn in r["prefix_synonyms"][:2]:
                reqs.append([syn, draw(st.sampled_from(["1", "x/y", "0001"]))])
    return {"spec": {"delimiter": d, "records": recs}, "requests": reqs, "late": late, "late_style": late_style, "sibling": draw(st.integers(0, 3)) == 0}


def check(case, stats: Stats) -> None:
    from curies.resolver_service import get_fastapi_app, get_flask_app
    from starlette.testclient import TestClient

    spec = case["spec"]
    d = spec["delimiter"]
    recs = spec["records"]
    late = case.get("late", 0)
    early = recs[: len(recs) - late] if late else recs
    conv = Converter(mk_records(early), delimiter=d)
    model = Model(recs, d)
    with warnings.catch_warnings():
        warnings.simplefilter("ignore")
        flask_client = get_flask_app(conv).test_client()
        fast_client = TestClient(get_fastapi_app(conv))
        if late:
            early_model = Model(early, d)
            for p, ident in case["requests"]:
                if d in p or not ident or any(seg in ("", ".", "..") for seg in ident.split("/")):
                    continue
                path = "/" + p + d + ident
                want = early_model.expand(p + d + ident)
                exp = (302, want) if want is not None else (422, None)
                r1 = flask_client.get(path, follow_redirects=False)
                r2 = fast_client.get(path, follow_redirects=False)
                if (r1.status_code, r1.headers.get("Location")) != exp or (r2.status_code, r2.headers.get("location")) != exp:
                    raise Violation(f"GET {path!r} before the converter was extended: Flask {(r1.status_code, r1.headers.get('Location'))!r}, FastAPI {(r2.status_code, r2.headers.get('location'))!r}, expected {exp!r}")
            for r in recs[len(recs) - late:]:
                conv.add_record(mk_record({"prefix": r["prefix"], "uri_prefix": r["uri_prefix"]}))
                if case.get("late_style") and r["prefix_synonyms"] and r["uri_prefix_synonyms"]:
                    conv.add_record(mk_record({"prefix": r["prefix"], "uri_prefix": r["uri_prefix_synonyms"][0], "prefix_synonyms": list(r["prefix_synonyms"]), "uri_prefix_synonyms": list(r["uri_prefix_synonyms"][1:])}), merge=True)
                    stats.cls("late-record-merged-under-secondary-uri-prefix")
                    continue
                for syn in r["prefix_synonyms"]:
                    conv.add_prefix(syn, r["uri_prefix"], merge=True)
                for syn in r["uri_prefix_synonyms"]:
                    conv.add_record(mk_record({"prefix": r["prefix"], "uri_prefix": syn}), merge=True)
            stats.cls("converter-extended-after-app-built")
        for p, ident in case["requests"]:
            if d in p or not ident or any(seg in ("", ".", "..") for seg in ident.split("/")):
                continue  # outside the statement's domain (hand-written replay files)
            stats.ev()
            path = "/" + p + d + ident
            want = model.expand(p + d + ident)
            r1 = flask_client.get(path, follow_redirects=False)
            r2 = fast_client.get(path, follow_redirects=False)
            got1 = (r1.status_code, r1.headers.get("Location"))
            got2 = (r2.status_code, r2.headers.get("location"))
            exp = (302, want) if want is not None else (422, None)
            if got1 != exp:
                raise Violation(f"Flask GET {path!r} -> {got1!r}, expected {exp!r} (expand({p + d + ident!r}) = {want!r})")
            if got2 != exp:
                raise Violation(f"FastAPI GET {path!r} -> {got2!r}, expected {exp!r} (expand({p + d + ident!r}) = {want!r})")
            # "redirects where expand points": the service and the converter's own expand must tell the same story
            lib = conv.expand(p + d + ident)
            if lib != want:
                raise Violation(f"GET {path!r} redirects to {want!r} but converter.expand({p + d + ident!r}) = {lib!r}")
            owner = model.owner(p)
            klass = None
            if d in ident and d != "/":
                klass = "identifier-contains-delimiter"
            elif "/" in ident:
                klass = "identifier-contains-slash"
            elif owner is not None and owner["prefix"] != p:
                klass = "synonym-prefix"
            stats.cls("known" if want is not None else "unknown")
            if klass:
                stats.nontrivial({"records": recs, "delimiter": d, "path": path}, klass + ("" if want is not None else "-unknown-prefix"))
        if case.get("sibling") and recs and "sibsyn" not in model.all_prefixes():
            _sibling_arm(conv, recs, d, flask_client, fast_client, stats)


def _sibling_arm(conv, recs, d, flask_client, fast_client, stats):
    """A second converter built from the SAME Record objects is extended by a merge. The app's own converter never learnt
    the new synonym (its lookup tables are untouched), so whatever `converter.expand` says - here: unknown - is what both
    frameworks must answer: the resolver redirects exactly where expand points, and both frameworks agree."""
    sibling = Converter(conv.records, delimiter="/" if d == ":" else ":")
    r0 = recs[0]
    sibling.add_prefix(r0["prefix"], r0["uri_prefix"], prefix_synonyms=["sibsyn"], merge=True)
    for p in ("sibsyn", r0["prefix"]):
        path = "/" + p + d + "1"
        want = conv.expand(p + d + "1")
        exp = (302, want) if want is not None else (422, None)
        r1 = flask_client.get(path, follow_redirects=False)
        r2 = fast_client.get(path, follow_redirects=False)
        got1, got2 = (r1.status_code, r1.headers.get("Location")), (r2.status_code, r2.headers.get("location"))
        stats.ev()
        if got1 != got2:
            raise Violation(f"after a sibling converter sharing the records was extended: Flask {got1!r} and FastAPI {got2!r} disagree on GET {path!r}")
        if got1 != exp:
            raise Violation(f"after a sibling converter sharing the records was extended: GET {path!r} -> {got1!r}, converter.expand says {exp!r}")
    stats.cls("sibling-converter-extended")


def _probe_apps():
    import curies
    from curies.resolver_service import get_fastapi_app, get_flask_app
    from starlette.testclient import TestClient

    conv = curies.Converter([curies.Record(prefix="static", uri_prefix="http://h/s/"), curies.Record(prefix="docs", uri_prefix="http://h/d/")], delimiter="/")
    with warnings.catch_warnings():
        warnings.simplefilter("ignore")
        return conv, get_flask_app(conv).test_client(), TestClient(get_fastapi_app(conv))


def probe_flask_static(stats: Stats) -> bool:
    """Known finding D12: with delimiter '/', Flask's built-in /static/<path> route shadows the CURIE prefix 'static'."""
    conv, fa, _ = _probe_apps()
    r = fa.get("/static/1", follow_redirects=False)
    return conv.expand("static/1") == "http://h/s/1" and r.status_code == 404


def probe_fastapi_docs(stats: Stats) -> bool:
    """Known finding D13: with delimiter '/', FastAPI's /docs/oauth2-redirect route shadows the CURIE docs/oauth2-redirect."""
    conv, _, fb = _probe_apps()
    r = fb.get("/docs/oauth2-redirect", follow_redirects=False)
    return conv.expand("docs/oauth2-redirect") == "http://h/d/oauth2-redirect" and r.status_code == 200


KNOWN_PROBES = {
    "D12:flask-static-route-shadows-prefix@resolver_service.py:get_flask_app": probe_flask_static,
    "D13:fastapi-docs-oauth2-redirect-shadows-curie@resolver_service.py:get_fastapi_app": probe_fastapi_docs,
}

SUBS = [
    Sub(name="resolver", check=check, strategy=lambda tier: cases(tier), n={"quick": 400, "thorough": 1200},
        required_classes=("known", "unknown", "nt:identifier-contains-delimiter", "nt:identifier-contains-slash", "nt:synonym-prefix", "converter-extended-after-app-built")),
]
