"""C15 — references parse, print, compare and hash consistently."""

from __future__ import annotations

import json

import tempfile
from pathlib import Path

import pydantic
from hypothesis import strategies as st

from pbt import strategies as S
from pbt.common import Stats, Sub, Violation, scratch_dir
from pbt.model import Model
from pbt.sut import BUILD_MODES, Converter, curies, mk_converter_via, mk_records

PROPERTY_ID = "C15"
RULE = (
    "Generated: prefixes without ':' (incl. empty, Unicode, whitespace), identifiers (empty, containing ':', tabs, quotes, "
    "newlines, carriage returns, Unicode), names; pairs/lists of references drawn from ReferenceTuple, Reference, "
    "NamableReference, NamedReference with deliberately colliding (prefix, identifier); strict converters as validation "
    "context with synonym / unknown / empty prefixes; lists of Triples written to .tsv and .tsv.gz. One evaluation = one "
    "generated case checked for: curie == prefix:identifier; from_curie / string validation / JSON / from_reference / "
    "write_triples->read_triples round trips give equal objects, splitting at the first separator; separator-free strings "
    "rejected (ValueError family); == and hash depend only on the pair across the three pydantic classes, whatever the route "
    "by which an instance came into being (constructed, model_copy with and without update of an instance that was "
    "already hashed, copy / deepcopy / pickle, re-validated, from_reference); ReferenceTuple "
    "behaves as the plain tuple; < is the lexicographic order on the pair and sorted() agrees with sorting tuples; "
    "assignment raises; with a converter context prefixes come back standardised and unknown ones raise ValidationError. "
    "Non-trivial = a collision across classes or names, or an identifier containing the separator or a character that "
    "needs CSV quoting, or a synonym prefix standardised through the context; distinct by hash of the case."
)
ASSUMPTIONS = [
    "oracle: algebraic laws and round trips on plain tuples (prefix, identifier); the converter-context oracle is pbt/model.py",
    "files are written to a per-run temporary directory that is removed afterwards",
]

PREFIX_FIXED = ["a", "b", "A", "ab", "", "é", "a b", "a\tb", "GO", "go", "a/b", "1", "a.b", "e\u0301", "\u212b", "\uff27\uff2f", "\u212a", "\u00df"]
IDENT_FIXED = ["", "1", "2", "a:b", ":", "::x", "a\tb", 'q"uote', "line\nbreak", "cr\rhere", "crlf\r\nx", "é", " lead", "trail ", "a,b", "0001", "'", "e\u0301", "\u212b", "\ufb01x", "\uff11\uff12", "\uf900", "i\u0307"]
NAMES = [None, "", "n", "name one", "é", "n\tx"]



def prefixes():
    return st.one_of(st.sampled_from(PREFIX_FIXED), st.text(S.UNICODE, max_size=4).map(lambda s: s.replace(":", "")))


def idents():
    return st.one_of(st.sampled_from(IDENT_FIXED), st.text(S.UNICODE, max_size=6))


CLASSES = ["Reference", "NamableReference", "NamedReference"]


def build(cls: str, p: str, i: str, name):
    if cls == "ReferenceTuple":
        return curies.ReferenceTuple(p, i)
    if cls == "Reference":
        return curies.Reference(prefix=p, identifier=i)
    if cls == "NamableReference":
        return curies.NamableReference(prefix=p, identifier=i, name=name)
    return curies.NamedReference(prefix=p, identifier=i, name=name if name is not None else "")


# ------------------------------------------------------------------------------------------------ round trips
@st.composite
def rt_cases(draw, tier="quick"):
    return {"prefix": draw(prefixes()), "identifier": draw(idents()), "name": draw(st.sampled_from(NAMES)), "nodelim": draw(st.text(S.UNICODE, max_size=5)).replace(":", "")}


def check_roundtrip(case, stats: Stats) -> None:
    stats.ev()
    p, i, name = case["prefix"], case["identifier"], case["name"]
    if ":" in p:
        return
    curie = p + ":" + i
    rt = curies.ReferenceTuple(p, i)
    if rt.curie != curie or tuple(rt) != (p, i) or rt != (p, i) or hash(rt) != hash((p, i)):
        raise Violation(f"ReferenceTuple({p!r}, {i!r}) does not behave as the plain tuple / prints {rt.curie!r}")
    back = curies.ReferenceTuple.from_curie(curie)
    if back != rt or (back.prefix, back.identifier) != (p, i):
        raise Violation(f"ReferenceTuple.from_curie({curie!r}) = {back!r}")
    for cls in CLASSES:
        C = getattr(curies, cls)
        obj = build(cls, p, i, name)
        if obj.curie != curie or str(obj.prefix) != p or obj.identifier != i:
            raise Violation(f"{cls}({p!r}, {i!r}).curie = {obj.curie!r}")
        if obj.pair != rt or tuple(obj.pair) != (p, i):
            raise Violation(f"{cls}.pair = {obj.pair!r}")
        kw = {} if cls == "Reference" else {"name": name if (name is not None or cls == "NamableReference") else ""}
        parsed = C.from_curie(curie, **kw)
        if parsed != obj or (str(parsed.prefix), parsed.identifier) != (p, i):
            raise Violation(f"{cls}.from_curie({curie!r}) = {parsed!r}, expected {obj!r}")
        if cls != "Reference" and parsed.name != obj.name:
            raise Violation(f"{cls}.from_curie lost the name: {parsed.name!r} vs {obj.name!r}")
        if cls != "NamedReference":
            v = C.model_validate(curie)
            if v != obj or (str(v.prefix), v.identifier) != (p, i):
                raise Violation(f"{cls}.model_validate({curie!r}) = {v!r}")
        j = C.model_validate_json(obj.model_dump_json())
        if j != obj or (str(j.prefix), j.identifier) != (p, i) or getattr(j, "name", None) != getattr(obj, "name", None):
            raise Violation(f"{cls} JSON round trip: {obj!r} -> {obj.model_dump_json()!r} -> {j!r}")
        d = C.model_validate(obj.model_dump())
        if d != obj:
            raise Violation(f"{cls} dict round trip changed the object")
        if rt.to_pydantic() != obj:
            raise Violation("ReferenceTuple.to_pydantic() is not equal to the reference with the same pair")
        # from_reference across classes keeps the pair
        for other in CLASSES:
            O = getattr(curies, other)
            if other == "NamedReference" and cls == "Reference":
                try:
                    O.from_reference(obj)
                except TypeError:
                    pass
                else:
                    raise Violation("NamedReference.from_reference(Reference) should raise TypeError (no name)")
                continue
            if other == "NamedReference" and getattr(obj, "name", None) is None:
                continue
            conv = O.from_reference(obj)
            if conv != obj or conv.pair != rt:
                raise Violation(f"{other}.from_reference({obj!r}) = {conv!r}")
        # immutability
        for attr, val in (("prefix", "zz"), ("identifier", "zz")):
            try:
                setattr(obj, attr, val)
            except Exception:  # noqa: BLE001
                pass
            else:
                raise Violation(f"{cls}.{attr} could be assigned: instances must be immutable")
        if (str(obj.prefix), obj.identifier) != (p, i):
            raise Violation(f"{cls} changed after an assignment attempt")
    try:
        rt.prefix = "zz"  # type: ignore[misc]
    except Exception:  # noqa: BLE001
        pass
    else:
        raise Violation("ReferenceTuple.prefix could be assigned")
    # separator-free strings are rejected
    nd = case["nodelim"]
    for what, fn in (
        ("ReferenceTuple.from_curie", lambda: curies.ReferenceTuple.from_curie(nd)),
        ("Reference.from_curie", lambda: curies.Reference.from_curie(nd)),
        ("NamableReference.from_curie", lambda: curies.NamableReference.from_curie(nd)),
        ("NamedReference.from_curie", lambda: curies.NamedReference.from_curie(nd, "n")),
        ("Reference.model_validate", lambda: curies.Reference.model_validate(nd)),
        ("NamableReference.model_validate", lambda: curies.NamableReference.model_validate(nd)),
    ):
        try:
            r = fn()
        except ValueError:
            pass
        else:
            raise Violation(f"{what}({nd!r}) accepted a separator-free string: {r!r}")
    if ":" in i:
        stats.nontrivial({"prefix": p, "identifier": i}, "identifier-contains-separator")
    elif p == "":
        stats.nontrivial({"prefix": p, "identifier": i}, "empty-prefix")
    else:
        stats.cls("plain")


# ------------------------------------------------------------------------------------------------ algebra
@st.composite
def algebra_cases(draw, tier="quick"):
    # pools rich in proper-prefix relations whose next character sorts below / above the separator ':' (0x3A), so that
    # an order computed on the printed CURIE instead of on the pair differs from the lexicographic order on the pair
    ps = draw(st.lists(st.sampled_from(["a", "b", "A", "", "ab", "é", "a1", "a.b", "a-", "a.", "a ", "a~", "a/", "B"]), min_size=1, max_size=4))
    ids = draw(st.lists(st.sampled_from(["", "1", "2", "10", "a", "A", ":", "é", "1:", "1.", "1 ", ":1", "-"]), min_size=1, max_size=3))
    n = draw(st.integers(2, 7))
    refs = []
    for _ in range(n):
        refs.append({"cls": draw(st.sampled_from(CLASSES)), "prefix": draw(st.sampled_from(ps)), "identifier": draw(st.sampled_from(ids)), "name": draw(st.sampled_from(NAMES)),
                     "route": draw(st.sampled_from(ROUTES))})
    return {"refs": refs}


# how an instance with a given pair comes into being: the pair alone must decide == and hash whatever the route, also when
# the instance it was copied from has already been hashed / used as a dictionary key
ROUTES = ["direct", "direct", "copy-of-hashed", "updated-copy-of-hashed", "copy.copy", "deepcopy", "pickle", "revalidated", "from_reference"]


def build_via(spec):
    import copy as _copy
    import pickle

    cls, p, i, name, route = spec["cls"], spec["prefix"], spec["identifier"], spec["name"], spec.get("route", "direct")
    obj = build(cls, p, i, name)
    if route == "direct":
        return obj
    _ = hash(obj), {obj: 1}, {obj}, obj < obj
    if route == "copy-of-hashed":
        return obj.model_copy()
    if route == "updated-copy-of-hashed":
        donor = build(cls, p + "x", i + "y", name)
        _ = hash(donor), {donor}
        half = donor.model_copy(update={"prefix": p})
        _ = hash(half)
        return half.model_copy(update={"identifier": i})
    if route == "copy.copy":
        return _copy.copy(obj)
    if route == "deepcopy":
        return _copy.deepcopy(obj)
    if route == "pickle":
        return pickle.loads(pickle.dumps(obj))
    if route == "revalidated":
        return type(obj).model_validate(obj.model_dump())
    return type(obj).from_reference(obj)


def check_algebra(case, stats: Stats) -> None:
    stats.ev()
    specs = case["refs"]
    objs = [build_via(s) for s in specs]
    pairs = [(s["prefix"], s["identifier"]) for s in specs]
    for o, pr, sp in zip(objs, pairs, specs):
        if (str(o.prefix), o.identifier) != pr:
            raise Violation(f"instance obtained via {sp.get('route')} has pair {(str(o.prefix), o.identifier)!r}, expected {pr!r}")
    if any(s.get("route", "direct") != "direct" for s in specs):
        stats.cls("instances-via-copy-routes")
    collide = False
    for x, px, sx in zip(objs, pairs, specs):
        for y, py, sy in zip(objs, pairs, specs):
            try:
                eq, ne, lt = x == y, x != y, x < y
            except TypeError as e:
                raise Violation(f"comparing {x!r} with {y!r} raised TypeError: {e}") from e
            if eq != (px == py):
                raise Violation(f"{x!r} == {y!r} is {eq}, pairs are {px!r} / {py!r}")
            if ne == eq:
                raise Violation(f"!= is not the negation of == for {x!r}, {y!r}")
            if px == py:
                if hash(x) != hash(y):
                    raise Violation(f"equal references hash differently: {x!r} / {y!r}")
                if x not in {y} or {x: 1}.get(y) != 1:
                    raise Violation(f"set/dict membership is not class- and name-blind for {x!r} / {y!r}")
                if sx is not sy and (sx["cls"] != sy["cls"] or sx["name"] != sy["name"]):
                    collide = True
            if lt != (px < py):
                raise Violation(f"{x!r} < {y!r} is {lt}, lexicographic order on the pairs says {px < py}")
        if hash(x) != hash(px) and False:
            pass
        t = curies.ReferenceTuple(*px)
        if t != px or hash(t) != hash(px) or (t < ("b", "")) != (px < ("b", "")):
            raise Violation("ReferenceTuple does not compare/hash as the plain tuple")
    try:
        ordered = sorted(objs)
        lo, hi = min(objs), max(objs)
    except TypeError as e:
        raise Violation(f"sorting / min / max over references of mixed classes raised TypeError: {e}") from e
    if (str(lo.prefix), lo.identifier) != min(pairs) or (str(hi.prefix), hi.identifier) != max(pairs):
        raise Violation(f"min / max of the references are {lo!r} / {hi!r}, of the pairs {min(pairs)!r} / {max(pairs)!r}")
    got = [(str(o.prefix), o.identifier) for o in ordered]
    if got != sorted(pairs):
        raise Violation(f"sorted(references) gives pairs {got!r}, sorting the tuples gives {sorted(pairs)!r}")
    if len({*objs}) != len(set(pairs)):
        raise Violation(f"a set of references has {len({*objs})} members for {len(set(pairs))} distinct pairs")
    if collide:
        stats.nontrivial(case, "collision-across-classes-or-names")
    else:
        stats.cls("no-collision")


# ------------------------------------------------------------------------------------------------ converter context
@st.composite
def context_cases(draw, tier="quick"):
    # the converter's own delimiter has nothing to do with how references print and parse (always ':')
    d = draw(st.sampled_from([":", ":", "/", "|", "_", "::"]))
    recs = draw(S.record_sets(delimiter=d, max_records=4, max_syn=3, unicode_arm=False))
    ps = S.all_prefixes(recs)
    probes = []
    for _ in range(draw(st.integers(1, 5))):
        mode = draw(st.integers(0, 3))
        if ps and mode <= 1:
            p = draw(st.sampled_from(ps))
        elif ps and mode == 2:
            p = draw(st.sampled_from(ps)).swapcase()
        else:
            p = draw(st.sampled_from(["zz", "", "a", "A1"]))
        probes.append([p, draw(st.sampled_from(["1", "", "a:b", "é"]))])
    return {"records": recs, "probes": probes, "name": draw(st.sampled_from(NAMES)), "build": draw(st.sampled_from(BUILD_MODES)), "delimiter": d}


def check_context(case, stats: Stats) -> None:
    recs = case["records"]
    d = case.get("delimiter", ":")
    conv = mk_converter_via({"delimiter": d, "records": recs}, case.get("build", "at-once"))
    model = Model(recs, d)
    if d != ":":
        stats.cls("context-converter-with-other-delimiter")
    for p, i in case["probes"]:
        if ":" in p:
            continue
        stats.ev()
        want = model.standardize_prefix(p)
        for cls in CLASSES:
            C = getattr(curies, cls)
            name = case["name"] if case["name"] is not None or cls != "NamedReference" else "n"
            builders = {
                "from_curie": (lambda: C.from_curie(p + ":" + i, converter=conv)) if cls == "Reference" else (lambda: C.from_curie(p + ":" + i, name, converter=conv)),
                "model_validate(context=converter)": lambda: C.model_validate({"prefix": p, "identifier": i, **({} if cls == "Reference" else {"name": name})}, context=conv),
                "model_validate(context={'converter': ...})": lambda: C.model_validate({"prefix": p, "identifier": i, **({} if cls == "Reference" else {"name": name})}, context={"converter": conv}),
                "from_reference": lambda: C.from_reference(curies.NamableReference(prefix=p, identifier=i, name=name), converter=conv),
            }
            if cls != "NamedReference":
                builders["model_validate('p:i', context=converter)"] = lambda: C.model_validate(p + ":" + i, context=conv)
                builders["model_validate_json('\"p:i\"', context={'converter': ...})"] = lambda: C.model_validate_json(json.dumps(p + ":" + i), context={"converter": conv})
            builders["model_validate_json(object, context=converter)"] = lambda: C.model_validate_json(
                json.dumps({"prefix": p, "identifier": i, **({} if cls == "Reference" else {"name": name})}), context=conv)
            if cls == "NamedReference" and name is None:
                continue
            for how, fn in builders.items():
                try:
                    obj = fn()
                except pydantic.ValidationError:
                    if want is not None:
                        raise Violation(f"{cls}.{how} rejected known prefix {p!r} (canonical {want!r})")
                    continue
                if want is None:
                    raise Violation(f"{cls}.{how} accepted unknown prefix {p!r} under a converter context: {obj!r}")
                if str(obj.prefix) != want or obj.identifier != i:
                    raise Violation(f"{cls}.{how} with context gave {obj!r}, expected prefix {want!r} and identifier {i!r}")
        # without context nothing is standardised
        plain = curies.Reference.from_curie(p + ":" + i)
        if str(plain.prefix) != p:
            raise Violation("Reference.from_curie without converter changed the prefix")
        if want is not None and want != p:
            stats.nontrivial({"records": recs, "prefix": p, "identifier": i}, "synonym-standardised-by-context")
        elif want is None:
            stats.nontrivial({"records": recs, "prefix": p, "identifier": i}, "unknown-prefix-rejected")
        else:
            stats.cls("canonical-prefix-in-context")


# ------------------------------------------------------------------------------------------------ triples files
@st.composite
def triple_cases(draw, tier="quick"):
    n = draw(st.integers(0, 5))
    rows = []
    for _ in range(n):
        rows.append([[draw(prefixes()), draw(idents())] for _ in range(3)])
    return {"rows": rows, "gz": draw(st.booleans()), "named": draw(st.booleans()),
            "header": draw(st.sampled_from([None, None, ["a", "b", "c"], ["object", "predicate", "subject"], ["s", "p", "o"], ["curie", "predicate", "curie"], ["", "", ""]]))}


_counter = [0]


def check_triples(case, stats: Stats) -> None:
    from curies.triples import Triple, read_triples, write_triples

    stats.ev()
    rows = [[(p.replace(":", ""), i) for p, i in row] for row in case["rows"]]
    triples = [Triple(subject=curies.Reference(prefix=s[0], identifier=s[1]), predicate=curies.Reference(prefix=p[0], identifier=p[1]), object=curies.Reference(prefix=o[0], identifier=o[1])) for s, p, o in rows]
    _counter[0] += 1
    path = scratch_dir() / f"t{_counter[0]}.tsv{'.gz' if case['gz'] else ''}"
    try:
        if case.get("header") is None:
            write_triples(triples, path)
        else:
            write_triples(triples, path, header=list(case["header"]))
        back = read_triples(path)
    finally:
        if path.exists():
            path.unlink()
    got = [[(str(t.subject.prefix), t.subject.identifier), (str(t.predicate.prefix), t.predicate.identifier), (str(t.object.prefix), t.object.identifier)] for t in back]
    want = [[s, p, o] for s, p, o in rows]
    if got != want:
        raise Violation(f"write_triples -> read_triples changed the triples: wrote {want!r}, read {got!r}")
    if back != triples:
        raise Violation("read_triples returned objects that are not equal to the written ones")
    needs = any(any(ch in (p + i) for ch in "\t\n\r\"") for row in rows for p, i in row)
    if needs:
        stats.nontrivial({"rows": case["rows"], "gz": case["gz"]}, "csv-quoting-needed")
    elif any(":" in i for row in rows for _, i in row):
        stats.nontrivial({"rows": case["rows"], "gz": case["gz"]}, "identifier-contains-separator-in-file")
    else:
        stats.cls("plain-file")


SUBS = [
    Sub(name="roundtrip", check=check_roundtrip, strategy=lambda tier: rt_cases(tier), n={"quick": 1500, "thorough": 6000},
        required_classes=("nt:identifier-contains-separator", "nt:empty-prefix")),
    Sub(name="algebra", check=check_algebra, strategy=lambda tier: algebra_cases(tier), n={"quick": 1200, "thorough": 5000},
        required_classes=("nt:collision-across-classes-or-names",)),
    Sub(name="context", check=check_context, strategy=lambda tier: context_cases(tier), n={"quick": 400, "thorough": 1500},
        required_classes=("nt:synonym-standardised-by-context", "nt:unknown-prefix-rejected")),
    Sub(name="triples", check=check_triples, strategy=lambda tier: triple_cases(tier), n={"quick": 500, "thorough": 2000},
        required_classes=("nt:csv-quoting-needed",)),
]
