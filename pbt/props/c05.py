"""C05 — incrementally built converters stay consistent with their own records (stateful)."""

from __future__ import annotations

import copy

from hypothesis import strategies as st
from hypothesis.stateful import RuleBasedStateMachine, initialize, rule

from pbt import strategies as S
from pbt.common import Stats, Sub, Violation, guarded
from pbt.model import add_record as model_add
from pbt.model import norm_records, prefixes_of, uri_prefixes_of
from pbt.sut import Converter, call, dump_records, lookup_snapshot, mk_converter, mk_record, mk_records

PROPERTY_ID = "C05"
RULE = (
    "Generated: Hypothesis rule-based state machine. Initial state = a strict converter (0-4 records, any delimiter, "
    "patterns); each step is add_record or add_prefix with case_sensitive in {T,F} and merge in {T,F}; the new record is "
    "drawn relative to the CURRENT state: fresh, overlapping one existing record on the CURIE side, the URI side or both, "
    "bridging two records, identical, or overlapping only up to letter case. After every step: accept/reject must agree "
    "with the documented rule (independent model), a reject is a ValueError and leaves records and all five lookup "
    "structures untouched, an accept leaves records equal to the model's (merge keeps canonical prefix, canonical URI "
    "prefix and pattern), a fresh strict Converter(copy of records) must construct, and all lookup structures and the "
    "answers of 14 query methods on boundary probes must equal the fresh converter's. One evaluation = one executed step. "
    "Non-trivial = a history with a successful merge AND a rejection, or a case-insensitive merge, or a query through a "
    "synonym acquired by merge; distinct by hash of (initial spec, operation list)."
)
ASSUMPTIONS = [
    "oracle 1: pbt/model.py:add_record (documented match / reject / merge rule over plain dicts)",
    "oracle 2: a freshly constructed strict Converter over deep copies of the current records (for derived indexes and query answers)",
]

# incl. strings whose case variants have another LENGTH (sharp s, ligatures, dotted capital I, ...): matching "up to case" is
# defined by casefold(), not by comparing equally long strings
FRESH_P = ["x", "y", "X", "zz", "q1", "x.y", "stra\u00dfe", "\ufb01sh", "\u0130d"]
FRESH_U = ["n/", "n/x", "m#", "N/", "http://purl.obolibrary.org/obo/X_", "n/x_", "n/stra\u00dfe/", "n/\ufb01/"]


def _case_variant(draw, s):
    """A spelling that differs from s but is equal to it under casefold() - where one exists."""
    cands = [v for v in (s.swapcase(), s.upper(), s.lower(), s.casefold(), s.title()) if v != s and v.casefold() == s.casefold()]
    return draw(st.sampled_from(cands)) if cands else s.swapcase()


@st.composite
def new_records(draw, records, delimiter):
    """A valid Record drawn relative to the current state (shape first, then strings)."""
    alpha = S._minus(S.CURIE_ALPHA, delimiter)
    taken = {x for r in records for x in prefixes_of(r) + uri_prefixes_of(r)}

    def fresh(side):
        pool = [x for x in (FRESH_P if side == "prefix" else FRESH_U) if (delimiter not in x or side != "prefix")] or ["x"]
        if draw(st.integers(0, 3)) == 0:
            return draw(S.txt(alpha if side == "prefix" else S.URI_ALPHA, min_size=0, max_size=3))
        return draw(st.sampled_from(pool))

    def of(r, side):
        return draw(st.sampled_from([r[side]] + r[side + "_synonyms"]))

    shape = draw(st.sampled_from(["fresh", "fresh", "one", "one", "one", "bridge", "case", "case", "mix"])) if records else "fresh"
    p, u = fresh("prefix"), fresh("uri_prefix")
    ps = [fresh("prefix") for _ in range(draw(st.integers(0, 2)))]
    us = [fresh("uri_prefix") for _ in range(draw(st.integers(0, 2)))]
    if shape == "one":
        r = draw(st.sampled_from(records))
        where = draw(st.sampled_from(["p", "u", "pu", "ps", "us", "all"]))
        if "p" == where or where in ("pu", "all"):
            p = of(r, "prefix")
        if "u" == where or where in ("pu", "all"):
            u = of(r, "uri_prefix")
        if where in ("ps", "all"):
            ps.append(of(r, "prefix"))
        if where in ("us", "all"):
            us.append(of(r, "uri_prefix"))
    elif shape == "bridge" and len(records) >= 2:
        a, b = draw(st.sampled_from(records)), draw(st.sampled_from(records))
        if draw(st.booleans()):
            p, u = of(a, "prefix"), of(b, "uri_prefix")
        else:
            p = of(a, "prefix")
            ps.append(of(b, "prefix"))
    elif shape == "case":
        r = draw(st.sampled_from(records))
        # prefer strings that have a case variant of another length (sharp s, ligatures, dotted I) when the state holds one
        odd = [(rr, side, x) for rr in records for side in ("prefix", "uri_prefix") for x in [rr[side]] + rr[side + "_synonyms"]
               if any(len(v) != len(x) and v.casefold() == x.casefold() for v in (x.upper(), x.casefold(), x.title()))]
        if odd and draw(st.booleans()):
            rr, side, x = draw(st.sampled_from(odd))
            v = draw(st.sampled_from([v for v in (x.upper(), x.casefold(), x.title()) if len(v) != len(x) and v.casefold() == x.casefold()]))
            if side == "prefix":
                p = v
            else:
                u = v
        elif draw(st.booleans()):
            p = _case_variant(draw, of(r, "prefix"))
        else:
            u = _case_variant(draw, of(r, "uri_prefix"))
    elif shape == "mix":
        everything = sorted(taken)
        if everything:
            for _ in range(draw(st.integers(1, 3))):
                x = draw(st.sampled_from(everything))
                tgt = draw(st.integers(0, 3))
                if tgt == 0:
                    p = x
                elif tgt == 1:
                    u = x
                elif tgt == 2:
                    ps.append(x)
                else:
                    us.append(x)
    ps = [x for x in dict.fromkeys(ps) if x != p]
    us = [x for x in dict.fromkeys(us) if x != u]
    pat = draw(st.sampled_from([None, None, "^\\d+$", "^x$"]))
    return {"prefix": p, "uri_prefix": u, "prefix_synonyms": ps, "uri_prefix_synonyms": us, "pattern": pat}


@st.composite
def ops(draw, records, delimiter):
    rec = draw(new_records(records, delimiter))
    kind = draw(st.sampled_from(["add_record", "add_record", "add_prefix"]))
    if kind == "add_prefix":
        rec["pattern"] = None  # add_prefix has no pattern argument
    return {"op": kind, "record": rec, "case_sensitive": draw(st.booleans()), "merge": draw(st.sampled_from([True, True, False])),
            "collection": draw(st.sampled_from(["list", "tuple", "set", "frozenset", "none-if-empty"]))}


def _probes(records, d):
    cur = []
    for p in S.all_prefixes(records):
        cur += [p + d + "1", p.swapcase() + d + "1", p]
    cur += ["", d, "nodelim" if d not in "nodelim" else "x", "zz" + d + "1"]
    # static part: the same strings are asked after EVERY step of a history (strings that a later step may start to
    # recognise, or recognise through a longer prefix), so stale result caches / lazily built indexes become visible
    cur += [p + d + "1" for p in FRESH_P if d not in p]
    uri = S.boundary_uri_probes(records, idents=("1",))
    uri += [u.swapcase() + "1" for u in S.all_uri_prefixes(records)] + ["", "zz"]
    uri += [u + "1" for u in FRESH_U] + [u + "x_1" for u in FRESH_U[:2]]
    return list(dict.fromkeys(cur)), list(dict.fromkeys(uri))


QUERIES_C = ["expand", "expand_all", "standardize_curie", "is_curie", "parse_curie", "compress_or_standardize", "expand_or_standardize"]
QUERIES_U = ["compress", "standardize_uri", "is_uri", "compress_or_standardize", "expand_or_standardize"]


def _answers(c: Converter, cur, uri):
    out = {}
    for q in QUERIES_C:
        fn = getattr(c, q)
        for s in cur:
            t, v = call(fn, s)
            out[f"{q}({s!r})"] = (t, list(v) if isinstance(v, (list, tuple)) else (v if t == "ok" else type(v).__name__))
    for q in QUERIES_U:
        fn = getattr(c, q)
        for s in uri:
            t, v = call(fn, s)
            out[f"{q}({s!r})"] = (t, v if t == "ok" else type(v).__name__)
    for s in uri:
        t, v = call(lambda x: c.parse_uri(x, return_none=True), s)
        out[f"parse_uri({s!r})"] = (t, None if v is None else (tuple(v) if t == "ok" else type(v).__name__))
    for s in cur:
        head = s.partition(c.delimiter)[0]
        out[f"standardize_prefix({head!r})"] = call(c.standardize_prefix, head)
        t, v = call(c.get_record, head)
        out[f"get_record({head!r})"] = (t, None if v is None else repr(sorted(v.model_dump().items())))
    out["get_prefixes"] = (sorted(c.get_prefixes()), sorted(c.get_prefixes(include_synonyms=True)))
    out["get_uri_prefixes"] = (sorted(c.get_uri_prefixes()), sorted(c.get_uri_prefixes(include_synonyms=True)))
    out["bimap"] = (dict(c.bimap), dict(c.reverse_bimap))
    return out


def consistency_error(c: Converter, d: str):
    """Compare a (possibly incrementally built) converter with a fresh strict converter over copies of its records.

    Returns a message, or None if every lookup structure and every query answer agrees and each string of each record
    resolves to exactly that record (C04 uniqueness)."""
    recs = dump_records(c)
    try:
        fresh = Converter(mk_records(copy.deepcopy(recs)), delimiter=d)
    except ValueError as e:
        return f"current records are no longer accepted by a strict Converter: {type(e).__name__}: {str(e)[:200]}"
    a, b = lookup_snapshot(c), lookup_snapshot(fresh)
    for k in a:
        if a[k] != b[k]:
            only_inc = {x: a[k][x] for x in a[k] if a[k].get(x) != b[k].get(x)}
            only_fresh = {x: b[k][x] for x in b[k] if a[k].get(x) != b[k].get(x)}
            return f"lookup structure {k} is stale: this converter has {only_inc!r}, a fresh converter over its records has {only_fresh!r}"
    cur, uri = _probes(recs, d)
    x, y = _answers(c, cur, uri), _answers(fresh, cur, uri)
    for k in x:
        if x[k] != y[k]:
            return f"{k}: this converter answers {x[k]!r}, a fresh converter over the same records answers {y[k]!r}"
    for r in recs:
        for p in prefixes_of(r):
            if c.standardize_prefix(p) != r["prefix"]:
                return f"prefix {p!r} resolves to {c.standardize_prefix(p)!r}, its record is {r['prefix']!r}"
        for u in uri_prefixes_of(r):
            pr = c.parse_uri(u, return_none=True)
            if pr is None or pr[0] != r["prefix"] or pr[1] != "":
                return f"URI prefix {u!r} parses to {pr!r}, its record is {r['prefix']!r}"
    return None


class History:
    def __init__(self, spec, stats: Stats):
        self.spec = copy.deepcopy(spec)
        self.stats = stats
        self.conv = mk_converter(spec)
        self.model = copy.deepcopy(spec["records"])
        self.d = spec["delimiter"]
        self.ops: list[dict] = []
        self.flags: set[str] = set()
        self.merged_in: set[str] = set()

    def case(self):
        return {"init": self.spec, "ops": copy.deepcopy(self.ops)}

    def fail(self, msg):
        raise Violation(f"after step {len(self.ops)} ({self.ops[-1] if self.ops else 'init'}): {msg}", self.case())

    def apply(self, op):
        self.ops.append(copy.deepcopy(op))
        guarded(lambda case, st_: self._apply(op), self.case(), self.stats)

    def _apply(self, op):
        self.stats.ev()
        c, rec = self.conv, op["record"]
        cs, merge = op["case_sensitive"], op["merge"]
        before_records = copy.deepcopy(dump_records(c))
        before_lookup = copy.deepcopy(lookup_snapshot(c))
        trial = copy.deepcopy(self.model)
        outcome, _ = model_add(trial, rec, case_sensitive=cs, merge=merge)
        try:
            if op["op"] == "add_record":
                c.add_record(mk_record(rec), case_sensitive=cs, merge=merge)
            else:
                coll = {"list": list, "tuple": tuple, "set": set, "frozenset": frozenset, "none-if-empty": lambda x: (list(x) or None)}[op.get("collection", "list")]
                c.add_prefix(rec["prefix"], rec["uri_prefix"], prefix_synonyms=coll(rec["prefix_synonyms"]),
                             uri_prefix_synonyms=coll(rec["uri_prefix_synonyms"]), case_sensitive=cs, merge=merge)
            raised = None
        except ValueError as e:
            raised = e
        except Exception as e:  # noqa: BLE001
            self.fail(f"raised {type(e).__name__} (only ValueError is documented): {e}")
        if raised is not None:
            self.stats.cls("step:reject")
            self.flags.add("reject")
            if outcome != "reject":
                self.fail(f"rejected with ValueError although the documented rule says {outcome}: {raised}")
            if dump_records(c) != before_records:
                self.fail("a rejected call changed the records")
            if lookup_snapshot(c) != before_lookup:
                self.fail("a rejected call changed a lookup structure")
        else:
            if outcome == "reject":
                self.fail("accepted a record that matches an existing record without merge, or matches several records")
            self.stats.cls("step:" + outcome)
            self.model = trial
            if outcome == "merge":
                self.flags.add("merge")
                if not cs:
                    self.flags.add("ci-merge")
                self.merged_in |= set(prefixes_of(rec)) | set(uri_prefixes_of(rec))
            got = norm_records(dump_records(c))
            want = norm_records(self.model)
            if got != want:
                self.fail(f"records differ from the documented result: got {got!r}, expected {want!r}")
        self._consistent()

    def _consistent(self):
        err = consistency_error(self.conv, self.d)
        if err:
            self.fail(err)
        for r in dump_records(self.conv):
            for p in prefixes_of(r):
                if p in self.merged_in and p != r["prefix"]:
                    self.flags.add("query-via-merged-synonym")

    def finish(self):
        self.stats.extra["histories"] = self.stats.extra.get("histories", 0) + 1
        f = self.flags
        klass = None
        if "merge" in f and "reject" in f:
            klass = "merge-and-reject"
        elif "ci-merge" in f:
            klass = "case-insensitive-merge"
        elif "query-via-merged-synonym" in f:
            klass = "query-via-merged-synonym"
        if klass:
            self.stats.nontrivial(self.case(), klass)
        if "ci-merge" in f:
            self.stats.cls("history:ci-merge")


def make_machine(tier, stats: Stats):
    big = tier == "thorough"

    class IncrementalConverter(RuleBasedStateMachine):
        def __init__(self):
            super().__init__()
            self.h = None

        @initialize(spec=S.converter_specs(max_records=5 if big else 4, max_syn=3, patterns=True), twin=st.sampled_from([None, None, None, None, ",", "|", ", "]))
        def init(self, spec, twin):
            taken = {x for r in spec["records"] for x in prefixes_of(r) + uri_prefixes_of(r)}
            if twin is not None and twin not in spec["delimiter"] and spec["delimiter"] not in twin and not ({"j1", "j2", "j1" + twin + "j2", "tw://a/", "tw://b/"} & taken):
                # two different records whose lists of names look alike once joined with a separator: [j1, j2] and ["j1,j2"]
                spec = copy.deepcopy(spec)
                spec["records"] += [{"prefix": "j1", "uri_prefix": "tw://a/", "prefix_synonyms": ["j2"], "uri_prefix_synonyms": [], "pattern": None},
                                    {"prefix": "j1" + twin + "j2", "uri_prefix": "tw://b/", "prefix_synonyms": [], "uri_prefix_synonyms": [], "pattern": None}]
            self.h = History(spec, stats)
            guarded(lambda case, st_: self.h._consistent(), self.h.case(), stats)

        @rule(data=st.data())
        def add(self, data):
            op = data.draw(ops(self.h.model, self.h.d))
            self.h.apply(op)

        def teardown(self):
            if self.h is not None:
                self.h.finish()

    return IncrementalConverter


def check(case, stats: Stats) -> None:
    h = History(case["init"], stats)
    h._consistent()
    for op in case["ops"]:
        h.apply(op)
    h.finish()


SUBS = [
    Sub(
        name="history",
        kind="machine",
        check=check,
        machine=make_machine,
        n={"quick": 400, "thorough": 1000},
        steps={"quick": 12, "thorough": 30},
        required_classes=("step:reject", "step:merge", "step:append", "nt:merge-and-reject", "history:ci-merge"),
    )
]
