"""C14 — written contexts read back to the same converter."""

from __future__ import annotations

import csv
import tempfile
from pathlib import Path

from hypothesis import strategies as st

from pbt import strategies as S
from pbt.common import Stats, Sub, Violation, scratch_dir
from pbt.model import norm_records
from pbt.sut import BUILD_MODES, Converter, curies, dump_records, mk_converter_via, mk_records

PROPERTY_ID = "C14"
RULE = (
    "Generated: strict converters with content alphabets exactly as the statement restricts them: EPM - arbitrary Unicode "
    "(no lone surrogates) incl. control characters, empty strings, patterns; JSON-LD - non-empty prefixes / synonyms not "
    "starting with '@', arbitrary URI prefixes, both include_synonyms and both expand values; SHACL (non-empty converters) "
    "and TSV - prefixes, URI prefixes and patterns from printable characters without double quote, angle brackets and "
    "controls, rich in backslashes, with and without include_synonyms. One evaluation = one write followed by one load of a "
    "temp file: EPM records equal field by field (synonyms as sets, empty pattern == none); JSON-LD / SHACL / TSV: canonical "
    "prefix map == bimap, with include_synonyms the non-strictly reloaded prefix_map == the original prefix_map, SHACL "
    "pattern_map equal on canonical prefixes. Non-trivial = records with and without synonyms side by side, a pattern or "
    "prefix containing a backslash, or non-ASCII content; distinct by hash of (format, options, records)."
)
ASSUMPTIONS = [
    "round-trip oracle; TSV is parsed back with the csv module as a two-column prefix map",
    "a synonym-bearing JSON-LD / SHACL file is reloaded with strict=False (a strict load is a C04 rejection by design)",
    "writing to a remote location / loading from a URL cannot be exercised offline",
]

_n = [0]
PRINTABLE = "abAB01._-:/#\\ é$^*+?(){}[]|~%&=,;!'`@"
PATTERNS = [None, None, "^\\d+$", "^\\d{7}$", "^[A-Z]+\\.\\d+$", "^a\\\\b$", "\\w+\\s\\S", "^(\\d+)-\\1$", "\\\\"]


def _path(ext):
    _n[0] += 1
    return scratch_dir() / f"f{_n[0]}.{ext}"


@st.composite
def _records(draw, *, prefix_strat, uri_strat, pattern_strat, min_records=0, max_records=5):
    n = draw(st.integers(min_records, max_records))
    ps = draw(st.lists(prefix_strat, unique=True, min_size=n, max_size=n + 4))
    us = draw(st.lists(uri_strat, unique=True, min_size=n, max_size=n + 4))
    n = min(n, len(ps), len(us))
    recs = [{"prefix": ps[i], "uri_prefix": us[i], "prefix_synonyms": [], "uri_prefix_synonyms": [], "pattern": draw(pattern_strat)} for i in range(n)]
    if n:
        for x in ps[n:]:
            recs[draw(st.integers(0, n - 1))]["prefix_synonyms"].append(x)
        for x in us[n:]:
            recs[draw(st.integers(0, n - 1))]["uri_prefix_synonyms"].append(x)
        if draw(st.integers(0, 4)) == 0:
            # a record may list a synonym twice (only different records clash); files must still read back
            r = draw(st.sampled_from(recs))
            side = draw(st.sampled_from(["prefix_synonyms", "uri_prefix_synonyms"]))
            if r[side]:
                r[side].append(r[side][0])
    return recs


@st.composite
def cases(draw, tier="quick", fmt=None):
    fmt = fmt or draw(st.sampled_from(["epm", "jsonld", "shacl", "tsv"]))
    case = {"format": fmt, "include_synonyms": draw(st.booleans()), "expand": draw(st.booleans()), "as_str_path": draw(st.booleans()),
            "build": draw(st.sampled_from(BUILD_MODES))}
    if fmt == "epm":
        uni = st.one_of(st.text(S.UNICODE, max_size=5), S.txt("ab\r\n\t\"\\é\x00\x85\u2028", max_size=4))
        case["records"] = draw(_records(prefix_strat=uni, uri_strat=uni, pattern_strat=st.one_of(st.sampled_from(PATTERNS + [""]), st.text(S.UNICODE, max_size=4))))
    elif fmt == "jsonld":
        pre = st.one_of(S.txt("abAB1._é", min_size=1, max_size=4), st.text(S.UNICODE, min_size=1, max_size=3)).map(lambda s: ("x" + s[1:]) if s.startswith("@") else s)
        uri = st.one_of(S.txt(S.URI_ALPHA, max_size=5), st.text(S.UNICODE, max_size=4))
        case["records"] = draw(_records(prefix_strat=pre, uri_strat=uri, pattern_strat=st.sampled_from(PATTERNS)))
        recs = case["records"]
        if len(recs) >= 2 and draw(st.integers(0, 3)) == 0:
            # a URI prefix that LOOKS like a compact IRI over another term of the same context ('urn' -> ..., 'lsid' -> 'urn:lsid:')
            i, j = draw(st.integers(0, len(recs) - 1)), draw(st.integers(0, len(recs) - 1))
            src = draw(st.sampled_from([recs[i]["prefix"], *recs[i]["prefix_synonyms"]]))
            cand = src + ":" + draw(st.sampled_from(["lsid:", "x/", "", "a#", "/x"]))
            if i != j and cand not in S.all_uri_prefixes(recs):
                recs[j]["uri_prefix"] = cand
    else:
        pre = S.txt(PRINTABLE, min_size=0 if fmt == "tsv" else 0, max_size=4)
        uri = st.one_of(S.txt(PRINTABLE, max_size=6), st.sampled_from(["http://purl.obolibrary.org/obo/GO_", "https://example.org/ns#", "http://x/a\\b/"]))
        case["records"] = draw(_records(prefix_strat=pre, uri_strat=uri, pattern_strat=st.one_of(st.sampled_from(PATTERNS), S.txt(PRINTABLE, min_size=1, max_size=5)), min_records=1 if fmt == "shacl" else 0))
    if fmt != "epm" and draw(st.sampled_from([False] * 20 + [True] + [False] * (39 if tier == "quick" else 9))):  # (Hypothesis over-samples the ends of a range)
        # a converter beyond typical chunk sizes (built without extra draws): writers that batch their output must still
        # produce a readable file
        n = draw(st.sampled_from([1001, 1024, 1200]))
        big = [{"prefix": f"p{i}", "uri_prefix": f"http://big/{i}/", "prefix_synonyms": [f"s{i}"] if i % 2 else [], "uri_prefix_synonyms": [], "pattern": "^\\d+$" if i % 7 == 0 else None} for i in range(n)]
        case["records"] = big + [r for r in case["records"] if not r["prefix"].startswith(("p", "s")) and not r["uri_prefix"].startswith("http://big/")
                                 and not any(x.startswith(("p", "s")) for x in r["prefix_synonyms"]) and not any(x.startswith("http://big/") for x in r["uri_prefix_synonyms"])][:2]
        case["build"] = "at-once"
    return case


def _classify(case, stats):
    recs = case["records"]
    klass = None
    text = "".join(r["prefix"] + r["uri_prefix"] + (r["pattern"] or "") + "".join(r["prefix_synonyms"]) + "".join(r["uri_prefix_synonyms"]) for r in recs)
    if any(r["prefix_synonyms"] for r in recs) and any(not r["prefix_synonyms"] for r in recs):
        klass = "with-and-without-synonyms"
    if "\\" in text:
        klass = "backslash-content"
    elif any(ord(ch) > 127 for ch in text) and klass is None:
        klass = "non-ascii-content"
    stats.cls("format:" + case["format"])
    if len(recs) > 1000:
        stats.cls("converter-with-more-than-1000-records")
    if klass:
        stats.nontrivial({"format": case["format"], "include_synonyms": case["include_synonyms"], "expand": case["expand"], "records": recs}, klass)


def check(case, stats: Stats) -> None:
    stats.ev()
    fmt, recs = case["format"], case["records"]
    # the converter is reached through different histories (at once / grown by merges / chain): what is written must not
    # depend on how the records came to hold their synonyms
    big = len(recs) > 1000
    if big:
        # the quadratic strict-mode scan over >1000 clash-free records would dominate the run: the same converter is obtained
        # without it (the records are clash-free by construction), and the files are read back non-strictly
        conv = Converter(mk_records(recs), strict=False)
    else:
        conv = mk_converter_via({"delimiter": ":", "records": recs}, case.get("build", "at-once"))
    inc = case["include_synonyms"]
    ext = {"epm": "json", "jsonld": "jsonld", "shacl": "ttl", "tsv": "tsv"}[fmt]
    path = _path(ext)
    arg = str(path) if case["as_str_path"] else path
    try:
        if fmt == "epm":
            curies.write_extended_prefix_map(conv, arg)
            back = curies.load_extended_prefix_map(path if case["as_str_path"] else str(path))
            got, want = norm_records(dump_records(back)), norm_records(recs)
            if got != want:
                raise Violation(f"EPM round trip: wrote {want!r}, read {got!r}")
        elif fmt == "jsonld":
            curies.write_jsonld_context(conv, arg, include_synonyms=inc, expand=case["expand"])
            back = curies.load_jsonld_context(arg, strict=not inc and not big)
            if inc:
                if dict(back.prefix_map) != dict(conv.prefix_map):
                    raise Violation(f"JSON-LD(include_synonyms, expand={case['expand']}) round trip: prefix_map {dict(back.prefix_map)!r} != original {dict(conv.prefix_map)!r}")
            else:
                if dict(back.bimap) != dict(conv.bimap) or dict(back.prefix_map) != dict(conv.bimap):
                    raise Violation(f"JSON-LD(expand={case['expand']}) round trip: {dict(back.prefix_map)!r} != bimap {dict(conv.bimap)!r}")
        elif fmt == "shacl":
            curies.write_shacl(conv, arg, include_synonyms=inc)
            back = curies.load_shacl(arg, strict=not inc and not big)
            if inc:
                if dict(back.prefix_map) != dict(conv.prefix_map):
                    raise Violation(f"SHACL(include_synonyms) round trip: prefix_map {dict(back.prefix_map)!r} != original {dict(conv.prefix_map)!r}")
            else:
                if dict(back.bimap) != dict(conv.bimap):
                    raise Violation(f"SHACL round trip: bimap {dict(back.bimap)!r} != original {dict(conv.bimap)!r}")
            want_pat = {r["prefix"]: r["pattern"] for r in recs if r["pattern"]}
            got_pat = {k: v for k, v in back.pattern_map.items() if k in {r["prefix"] for r in recs}}
            if got_pat != want_pat:
                raise Violation(f"SHACL round trip: patterns {got_pat!r} != original {want_pat!r}")
        else:
            curies.write_tsv(conv, arg)
            with path.open(newline="") as f:
                rows = list(csv.reader(f, delimiter="\t"))
            if not rows or rows[0] != ["prefix", "base"]:
                raise Violation(f"TSV: header row is {rows[:1]!r}")
            if any(len(r) != 2 for r in rows[1:]):
                raise Violation(f"TSV: not a two-column file: {rows!r}")
            pm = {r[0]: r[1] for r in rows[1:]}
            if pm != dict(conv.bimap) or len(rows) - 1 != len(conv.bimap):
                raise Violation(f"TSV round trip: {pm!r} != bimap {dict(conv.bimap)!r}")
            back = curies.load_prefix_map(pm, strict=not big)
            if dict(back.bimap) != dict(conv.bimap):
                raise Violation("TSV: reloaded prefix map has a different bimap")
    finally:
        path.unlink(missing_ok=True)
    _classify(case, stats)


def _sub(fmt, nq, nt):
    return Sub(name=fmt, check=check, strategy=lambda tier, f=fmt: cases(tier, f), n={"quick": nq, "thorough": nt},
               required_classes=("format:" + fmt,))


SUBS = [_sub("epm", 400, 1500), _sub("jsonld", 400, 1500), _sub("shacl", 220, 700), _sub("tsv", 300, 1200)]
SUBS[2].required_classes = ("format:shacl", "nt:backslash-content", "nt:with-and-without-synonyms")
