"""C13 — every loader yields exactly the converter its input format denotes."""

from __future__ import annotations

import json
import tempfile
from pathlib import Path

from hypothesis import strategies as st

from pbt import strategies as S
from pbt.common import Stats, Sub, Violation, scratch_dir
from pbt.model import Model, norm_records, prefixes_of, uri_prefixes_of
from pbt.sut import Converter, curies, dump_records, mk_records

PROPERTY_ID = "C13"
RULE = (
    "Generated per loader (from_prefix_map, from_priority_prefix_map, from_reverse_prefix_map, from_extended_prefix_map, "
    "from_jsonld, from_rdflib, upgrade_prefix_map): the input structure over small-alphabet and arbitrary Unicode strings "
    "(values distinct where the loader's strictness would otherwise interfere - that is C04's subject): prefix maps, "
    "priority maps with non-empty duplicate-free lists, reverse maps with groups, EPM dict lists with optional keys "
    "omitted, JSON-LD contexts mixing string terms, {'@id','@prefix':true} terms, @-keywords, the empty key and other terms "
    "(dicts without @prefix, @prefix false, numbers, null, lists), rdflib graphs / namespace managers created with "
    "bind_namespaces='none' (incl. the default namespace; bindings in the graph's own store, in a namespace manager borrowed "
    "from another graph, made through the manager, re-bound with replace=True, or on top of rdflib's built-in sets), non-bijective dicts for upgrade_prefix_map; every input also in "
    "a shuffled dictionary order; every JSON input also written to a temp file and loaded via str and via Path. "
    "One evaluation = one input: records equal the expectation derived from the input by the documented rule (ties between "
    "equally short reverse-map URI prefixes are free), query answers on boundary probes equal the model built from that "
    "expectation, nothing dropped or invented, str / Path / object loads agree, upgrade_prefix_map output is strict-valid "
    "and order-invariant; for rdflib the oracle is the graph's own namespaces(). Non-trivial = >=2 URI prefixes for one "
    "prefix, >=2 prefixes for one URI prefix, or ignored JSON-LD terms present; distinct by hash of (loader, input)."
)
ASSUMPTIONS = [
    "oracle: expected record list derived from the input structure by the rule quoted in the statement + pbt/model.py for behaviour",
    "remote (http/ftp) loading cannot be exercised in the sealed sandbox; only object, str path and Path are checked",
    "for from_rdflib the oracle is rdflib's own namespaces() listing",
]

_n = [0]
KINDS = ["prefix_map", "priority", "reverse", "epm", "jsonld", "rdflib", "upgrade"]


def _strs(alpha, n_min, n_max, unique=True):
    return st.lists(st.one_of(S.txt(alpha, max_size=4), st.text(S.UNICODE, max_size=3)), min_size=n_min, max_size=n_max, unique=unique)


@st.composite
def cases(draw, tier="quick", kind=None):
    kind = kind or draw(st.sampled_from(KINDS))
    case = {"kind": kind}
    if kind == "prefix_map":
        ps = draw(_strs(S.CURIE_ALPHA, 0, 6))
        us = draw(S.uri_pool(len(ps), len(ps)))
        case["data"] = [[p, u] for p, u in zip(ps, us)]
    elif kind == "priority":
        ps = draw(_strs(S.CURIE_ALPHA, 0, 5))
        sizes = [draw(st.integers(1, 3)) for _ in ps]
        us = draw(S.uri_pool(sum(sizes), sum(sizes)))
        data, k = [], 0
        for p, n in zip(ps, sizes):
            lst = us[k:k + n]
            if n > 1 and draw(st.integers(0, 3)) == 0:
                lst = lst + [lst[draw(st.integers(1, n - 1))]]  # a non-first URI prefix listed twice: still one synonym
            data.append([p, lst])
            k += n
        case["data"] = data
    elif kind == "reverse":
        us = draw(S.uri_pool(0, 8))
        ps = draw(_strs(S.CURIE_ALPHA, 1, 4))
        case["data"] = [[u, draw(st.sampled_from(ps))] for u in us]
    elif kind == "epm":
        case["data"] = draw(S.record_sets(delimiter=":", max_records=5, max_syn=3, patterns=True, prefix_no_delimiter=False))
        for r in case["data"]:  # a synonym listed twice inside one record is still one synonym
            for key in ("prefix_synonyms", "uri_prefix_synonyms"):
                if r[key] and draw(st.integers(0, 4)) == 0:
                    r[key] = r[key] + [r[key][0]]
        if len(case["data"]) >= 2 and draw(st.integers(0, 2)) == 0:
            # a CURIE-prefix synonym of one record spelt exactly like a URI prefix of another record (separate name spaces)
            recs = case["data"]
            i, j = draw(st.integers(0, len(recs) - 1)), draw(st.integers(0, len(recs) - 1))
            cand = draw(st.sampled_from([recs[j]["uri_prefix"], *recs[j]["uri_prefix_synonyms"]]))
            if i != j and cand not in S.all_prefixes(recs):
                recs[i]["prefix_synonyms"].append(cand)
        case["omit_empty"] = draw(st.booleans())
    elif kind == "jsonld":
        ps = [p for p in draw(_strs(S.CURIE_ALPHA + "@", 0, 7)) ]
        us = draw(S.uri_pool(len(ps), len(ps)))
        terms = []
        for p, u in zip(ps, us):
            form = draw(st.sampled_from(["str", "str", "prefix-dict", "dict-no-prefix", "dict-prefix-false", "number", "null", "list", "type-coercion"]))
            terms.append([p, u, form])
        for kw in draw(st.lists(st.sampled_from(["@vocab", "@base", "@language", "@version", ""]), unique=True, max_size=3)):
            # ignored keys come with plain strings and, just as often, with a value that would be taken under an ordinary key
            terms.append([kw, "http://kw/" if kw != "@version" else "1.1", draw(st.sampled_from(["str", "prefix-dict"])) if kw != "@version" else "str"])
        case["data"] = terms
        case["extra_top"] = draw(st.booleans())
    elif kind == "rdflib":
        n = draw(st.integers(0, 5))
        ps = draw(st.lists(st.sampled_from(["", "a", "b", "A", "ab", "x1", "a_b", "é"]), unique=True, min_size=n, max_size=n))
        us = draw(S.url_pool(n, n))
        case["data"] = [[p, u] for p, u in zip(ps, us)]
        case["manager"] = draw(st.booleans())
        # how the graph came to its bindings: its own store, a namespace manager borrowed from another graph (the
        # documented way of sharing bindings), bound through the manager object, with rdflib's built-in binding sets
        case["setup"] = draw(st.sampled_from(["own", "own", "borrowed", "borrowed-then-bind", "via-manager", "core", "rdflib-defaults", "rebound"]))
    else:  # upgrade: non-bijective
        ps = draw(_strs(S.CURIE_ALPHA, 0, 7))
        upool = draw(S.uri_pool(1, 4))
        case["data"] = [[p, draw(st.sampled_from(upool))] for p in ps]
        if case["data"] and draw(st.integers(0, 2)) == 0:
            # the two sides are separate name spaces: a CURIE prefix may be spelt like a URI prefix of the same map
            extra = draw(st.sampled_from(upool))
            if extra not in ps:
                case["data"].append([extra, draw(st.sampled_from(upool))])
    case["delimiter"] = draw(S.delimiters())
    n = len(case["data"])
    case["perm"] = list(draw(st.permutations(range(n)))) if n > 1 else list(range(n))
    return case


def _rec(p, u, ps=(), us=(), pat=None):
    return {"prefix": p, "uri_prefix": u, "prefix_synonyms": list(ps), "uri_prefix_synonyms": list(us), "pattern": pat}


def _jsonld_value(u, form):
    return {
        "str": u,
        "prefix-dict": {"@id": u, "@prefix": True},
        "dict-no-prefix": {"@id": u},
        "dict-prefix-false": {"@id": u, "@prefix": False},
        "number": 7,
        "null": None,
        "list": [u],
        "type-coercion": {"@id": u, "@type": "@id"},
    }[form]


def _same_records(a, b, *, free_canonical_uri=False):
    if not free_canonical_uri:
        return norm_records(a) == norm_records(b)
    ka = sorted((r["prefix"], tuple(sorted(r["prefix_synonyms"])), tuple(sorted(uri_prefixes_of(r)))) for r in a)
    kb = sorted((r["prefix"], tuple(sorted(r["prefix_synonyms"])), tuple(sorted(uri_prefixes_of(r)))) for r in b)
    return ka == kb


def _via_files(obj, loader, what):
    """Load the same JSON data from a str path and a Path; return both converters."""
    # The SAME file name is rewritten for every case of a loader kind (and deliberately not deleted in between): a loader
    # must return what the file holds NOW, so any caching keyed on the location shows up as a stale converter.
    _n[0] += 1
    path = scratch_dir() / f"in-{what}.json"
    path.write_text(json.dumps(obj))
    first = loader(str(path)), loader(path)
    if _n[0] % 4 == 1:
        # a RELATIVE location whose name merely looks like the start of a URL is still a local file
        import os

        name = ["http_map.json", "https-context.json", "ftp.json", "httpd/ftp_in.json"][(_n[0] // 4) % 4]
        rel = scratch_dir() / name
        rel.parent.mkdir(exist_ok=True)
        rel.write_text(json.dumps(obj))
        cwd = os.getcwd()
        os.chdir(scratch_dir())
        try:
            first = loader(name), loader(Path(name))
        finally:
            os.chdir(cwd)
            rel.unlink(missing_ok=True)
    if _n[0] % 3 == 0:  # and sometimes a fresh, never-seen name
        fresh = scratch_dir() / f"in-{what}-{_n[0]}.json"
        fresh.write_text(json.dumps(obj))
        try:
            return loader(str(fresh)), loader(fresh)
        finally:
            fresh.unlink(missing_ok=True)
    return first


def _behaviour(conv: Converter, expected, what):
    # loaders forward keyword arguments such as delimiter= to the constructor: the REQUESTED delimiter is what counts
    d = what.split("delimiter=", 1)[1] if "delimiter=" in what else ":"
    d = eval(d) if "delimiter=" in what else d  # noqa: S307 - repr of a str written by this module
    model = Model(expected, d)
    for r in expected:
        for p in prefixes_of(r):
            if (p + d).find(d) != len(p):
                continue  # the prefix contains the delimiter or overlaps with it: no CURIE can address it (C02's domain)
            for ident in ("1", "a" + d + "b"):
                if conv.expand(p + d + ident) != r["uri_prefix"] + ident:
                    raise Violation(f"{what}: expand({p + d + ident!r}) = {conv.expand(p + d + ident)!r}, the input denotes {r['uri_prefix'] + ident!r}")
            if conv.standardize_prefix(p) != r["prefix"]:
                raise Violation(f"{what}: {p!r} standardises to {conv.standardize_prefix(p)!r}, expected canonical {r['prefix']!r}")
    for u in S.boundary_uri_probes(expected, idents=("1",)):
        if conv.compress(u) != model.compress(u):
            raise Violation(f"{what}: compress({u!r}) = {conv.compress(u)!r}, the input denotes {model.compress(u)!r}")
    if conv.get_prefixes(include_synonyms=True) != set(model.all_prefixes()):
        raise Violation(f"{what}: known prefixes {sorted(conv.get_prefixes(include_synonyms=True))!r} != listed {sorted(set(model.all_prefixes()))!r}")
    if conv.get_uri_prefixes(include_synonyms=True) != set(model.all_uri_prefixes()):
        raise Violation(f"{what}: known URI prefixes differ from the listed ones")


def check(case, stats: Stats) -> None:
    stats.ev()
    kind, data, perm = case["kind"], case["data"], case["perm"]
    shuffled = [data[i] for i in perm] if len(perm) == len(data) else list(reversed(data))
    klass = None
    if kind == "prefix_map":
        expected = [_rec(p, u) for p, u in data]
        build = lambda d: Converter.from_prefix_map({p: u for p, u in d})  # noqa: E731
        convs = {"object": build(data), "shuffled": build(shuffled), "load_prefix_map": curies.load_prefix_map({p: u for p, u in data})}
        s, pth = _via_files({p: u for p, u in data}, Converter.from_prefix_map, kind)
        convs.update({"str-path": s, "Path": pth})
        dl = case.get("delimiter", ":")
        convs[f"delimiter={dl!r}"] = Converter.from_prefix_map({p: u for p, u in data}, delimiter=dl)
        free = False
    elif kind == "priority":
        expected = [_rec(p, us[0], us=list(dict.fromkeys(us[1:]))) for p, us in data]
        build = lambda d: Converter.from_priority_prefix_map({p: list(us) for p, us in d})  # noqa: E731
        convs = {"object": build(data), "shuffled": build(shuffled)}
        s, pth = _via_files({p: list(us) for p, us in data}, Converter.from_priority_prefix_map, kind)
        convs.update({"str-path": s, "Path": pth})
        dl = case.get("delimiter", ":")
        convs[f"delimiter={dl!r}"] = Converter.from_priority_prefix_map({p: list(us) for p, us in data}, delimiter=dl)
        free = False
        if any(len(us) > 1 for _, us in data):
            klass = "several-uri-prefixes-for-one-prefix"
    elif kind == "reverse":
        groups: dict[str, list[str]] = {}
        for u, p in data:
            groups.setdefault(p, []).append(u)
        expected = []
        for p, us in groups.items():
            us2 = sorted(us, key=len)
            expected.append(_rec(p, us2[0], us=us2[1:]))
        build = lambda d: Converter.from_reverse_prefix_map({u: p for u, p in d})  # noqa: E731
        convs = {"object": build(data), "shuffled": build(shuffled)}
        s, pth = _via_files({u: p for u, p in data}, Converter.from_reverse_prefix_map, kind)
        convs.update({"str-path": s, "Path": pth})
        dl = case.get("delimiter", ":")
        convs[f"delimiter={dl!r}"] = Converter.from_reverse_prefix_map({u: p for u, p in data}, delimiter=dl)
        free = True
        if any(len(us) > 1 for us in groups.values()):
            klass = "several-uri-prefixes-for-one-prefix"
    elif kind == "epm":
        expected = data

        def as_dicts(rs):
            out = []
            for r in rs:
                d = {"prefix": r["prefix"], "uri_prefix": r["uri_prefix"]}
                for k in ("prefix_synonyms", "uri_prefix_synonyms", "pattern"):
                    if r[k] or not case["omit_empty"]:
                        d[k] = r[k]
                out.append(d)
            return out

        convs = {"object": Converter.from_extended_prefix_map(as_dicts(data)), "shuffled": Converter.from_extended_prefix_map(as_dicts(shuffled)),
                 "records": Converter.from_extended_prefix_map(mk_records(data)), "load_extended_prefix_map": curies.load_extended_prefix_map(as_dicts(data))}
        # "an iterable of Record objects or dictionaries": one-shot iterators, tuples and mixed streams denote the same converter
        convs["generator-of-dicts"] = Converter.from_extended_prefix_map(x for x in as_dicts(data))
        convs["iterator-of-records"] = Converter.from_extended_prefix_map(iter(mk_records(data)))
        convs["tuple-of-dicts"] = Converter.from_extended_prefix_map(tuple(as_dicts(data)))
        convs["mixed-map-object"] = Converter.from_extended_prefix_map(map(lambda t: t[1] if t[0] % 2 else mk_records([data[t[0]]])[0], enumerate(as_dicts(data))))
        s, pth = _via_files(as_dicts(data), Converter.from_extended_prefix_map, kind)
        convs.update({"str-path": s, "Path": pth})
        dl = case.get("delimiter", ":")
        convs[f"delimiter={dl!r}"] = Converter.from_extended_prefix_map(as_dicts(data), delimiter=dl)
        free = False
        if any(r["prefix_synonyms"] for r in data) and any(r["uri_prefix_synonyms"] for r in data):
            klass = "synonyms-on-both-sides"
    elif kind == "jsonld":
        expected = [_rec(p, u) for p, u, form in data if p and not p.startswith("@") and form in ("str", "prefix-dict")]

        def ctx(d):
            obj = {"@context": {p: _jsonld_value(u, form) for p, u, form in d}}
            if case["extra_top"]:
                obj["@id"] = "http://doc"
            return obj

        convs = {"object": Converter.from_jsonld(ctx(data)), "shuffled": Converter.from_jsonld(ctx(shuffled)), "load_jsonld_context": curies.load_jsonld_context(ctx(data))}
        s, pth = _via_files(ctx(data), Converter.from_jsonld, kind)
        convs.update({"str-path": s, "Path": pth})
        dl = case.get("delimiter", ":")
        convs[f"delimiter={dl!r}"] = Converter.from_jsonld(ctx(data), delimiter=dl)
        free = False
        if len(expected) < len(data):
            klass = "ignored-jsonld-terms-present"
    elif kind == "rdflib":
        import rdflib

        setup = case.get("setup", "own")
        stats.cls("rdflib-setup:" + setup)
        if setup in ("borrowed", "borrowed-then-bind"):
            lender = rdflib.Graph(bind_namespaces="none")
            g = rdflib.Graph(bind_namespaces="none")
            g.bind("shadowed", rdflib.Namespace("http://only-in-own-store/"))
            g.namespace_manager = lender.namespace_manager
            for p, u in data[: len(data) // 2] if setup == "borrowed-then-bind" else data:
                lender.bind(p, rdflib.Namespace(u))
            if setup == "borrowed-then-bind":
                for p, u in data[len(data) // 2:]:
                    g.bind(p, rdflib.Namespace(u))
        elif setup == "via-manager":
            g = rdflib.Graph(bind_namespaces="none")
            for p, u in data:
                g.namespace_manager.bind(p, rdflib.URIRef(u))
        elif setup in ("core", "rdflib-defaults"):
            g = rdflib.Graph(bind_namespaces="core") if setup == "core" else rdflib.Graph()
            for p, u in data:
                g.bind(p, rdflib.Namespace(u))
        elif setup == "rebound":
            g = rdflib.Graph(bind_namespaces="none")
            for p, u in data:
                g.bind(p, rdflib.Namespace(u + "old/"))
            for p, u in data:
                g.bind(p, rdflib.Namespace(u), replace=True)
        else:
            g = rdflib.Graph(bind_namespaces="none")
            for p, u in data:
                g.bind(p, rdflib.Namespace(u))
        listed = [(str(p), str(ns)) for p, ns in g.namespaces()]
        if len({u for _, u in listed}) != len(listed) or len({p for p, _ in listed}) != len(listed):
            stats.cls("rdflib:duplicate-in-namespaces-listing-skipped")
            return
        expected = [_rec(p, u) for p, u in listed]
        convs = {"graph": Converter.from_rdflib(g), "manager": Converter.from_rdflib(g.namespace_manager)}
        dl = case.get("delimiter", ":")
        convs[f"delimiter={dl!r}"] = Converter.from_rdflib(g, delimiter=dl)
        free = False
        if any(p == "" for p, _ in listed):
            klass = "default-namespace"
    else:
        groups2: dict[str, list[str]] = {}
        for p, u in data:
            groups2.setdefault(u, []).append(p)
        expected = []
        for u, ps in groups2.items():
            ps2 = sorted(ps)
            expected.append(_rec(ps2[0], u, ps=ps2[1:]))
        r1 = curies.upgrade_prefix_map({p: u for p, u in data})
        r2 = curies.upgrade_prefix_map({p: u for p, u in shuffled})
        d1 = [dict(prefix=r.prefix, uri_prefix=r.uri_prefix, prefix_synonyms=list(r.prefix_synonyms), uri_prefix_synonyms=list(r.uri_prefix_synonyms), pattern=r.pattern) for r in r1]
        d2 = [dict(prefix=r.prefix, uri_prefix=r.uri_prefix, prefix_synonyms=list(r.prefix_synonyms), uri_prefix_synonyms=list(r.uri_prefix_synonyms), pattern=r.pattern) for r in r2]
        # the statement fixes which prefix is canonical and that the rest are synonyms - not the order of the synonym list
        # nor the order of the returned records
        if norm_records(d1) != norm_records(d2):
            raise Violation(f"upgrade_prefix_map depends on the dictionary order: {norm_records(d1)!r} vs {norm_records(d2)!r}")
        try:
            convs = {"upgrade": Converter(r1), "upgrade-epm": Converter.from_extended_prefix_map(r2)}
        except ValueError as e:
            raise Violation(f"upgrade_prefix_map produced records a strict converter rejects: {type(e).__name__}") from e
        free = False
        if any(len(ps) > 1 for ps in groups2.values()):
            klass = "several-prefixes-for-one-uri-prefix"
    for how, conv in convs.items():
        got = dump_records(conv)
        if not _same_records(got, expected, free_canonical_uri=free):
            raise Violation(f"{kind} via {how}: records {norm_records(got)!r}, the input denotes {norm_records(expected)!r}")
        if free:
            for r in got:
                if any(len(s) < len(r["uri_prefix"]) for s in r["uri_prefix_synonyms"]):
                    raise Violation(f"{kind} via {how}: canonical URI prefix {r['uri_prefix']!r} is not a shortest one of its group {uri_prefixes_of(r)!r}")
            _behaviour(conv, got, f"{kind} via {how}")
        else:
            _behaviour(conv, expected, f"{kind} via {how}")
    stats.cls("loader:" + kind)
    if klass:
        stats.nontrivial({"kind": kind, "data": data}, klass)


def _sub(kind, nq, nt):
    return Sub(name=kind, check=check, strategy=lambda tier, k=kind: cases(tier, k), n={"quick": nq, "thorough": nt})


SUBS = [
    _sub("prefix_map", 250, 1000),
    _sub("priority", 250, 1000),
    _sub("reverse", 250, 1000),
    _sub("epm", 200, 800),
    _sub("jsonld", 250, 1000),
    _sub("rdflib", 250, 800),
    _sub("upgrade", 250, 1000),
]
SUBS[0].required_classes = ("loader:prefix_map",)
SUBS[1].required_classes = ("loader:priority", "nt:several-uri-prefixes-for-one-prefix")
SUBS[4].required_classes = ("loader:jsonld", "nt:ignored-jsonld-terms-present")
SUBS[5].required_classes = ("loader:rdflib", "nt:default-namespace", "rdflib-setup:borrowed", "rdflib-setup:own")
SUBS[6].required_classes = ("loader:upgrade", "nt:several-prefixes-for-one-uri-prefix")
