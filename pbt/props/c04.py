"""C04 — strict construction enforces one owner per CURIE prefix and per URI prefix."""

from __future__ import annotations

import pydantic
from hypothesis import strategies as st

from pbt import strategies as S
from pbt.common import Stats, Sub, Violation
from pbt.model import Model, clash_sets, norm_record, prefixes_of, uri_prefixes_of
from pbt.sut import Converter, Record, curies, dump_record, mk_records

PROPERTY_ID = "C04"
RULE = (
    "Generated: arbitrary finite record collections drawn WITH replacement from small pools of CURIE prefixes and URI "
    "prefixes (so canonical/canonical, canonical/synonym and synonym/synonym clashes on either or both sides are common), "
    "in the given and in a permuted order, fed to Converter(...), from_extended_prefix_map (dicts), and the equivalent "
    "inputs of from_prefix_map, from_priority_prefix_map, from_reverse_prefix_map, from_jsonld; plus single records that "
    "list their own canonical value among their synonyms. One evaluation = one construction attempt compared with the "
    "model's clash sets (strings claimed by two different records): succeeds iff both are empty, else "
    "DuplicateURIPrefixes if the URI set is non-empty, else DuplicatePrefixes, with a sound and complete listing; on "
    "success every prefix / URI prefix resolves to exactly one record and bimap / reverse_bimap are inverse bijections "
    "with one entry per record. Non-trivial = the only clash involves a synonym, or both sides clash at once, or a valid "
    "collection with >=3 records and synonyms on both sides; distinct by hash of the input."
)
ASSUMPTIONS = [
    "oracle: pbt/model.py:clash_sets over plain dicts (index sets per string); never uses curies' own duplicate finders",
    "duplicates inside one record's own synonym list are not a clash between two different records and are accepted, as the code does",
]

# the two sides are separate name spaces: some strings occur in both pools (a CURIE prefix may equal a URI prefix, also of the
# same record, without any clash)
P_POOL = ["a", "b", "u/", "A", "ab", "", "é", "a.b"]
U_POOL = ["u/", "a", "u/a", "v#", "U/", "", "u/a_", "é:", "b"]


@st.composite
def collections(draw, tier="quick"):
    big = tier == "thorough"
    n = draw(st.integers(0, 7 if big else 5))
    # each side independently: 0 = small pool drawn with replacement (clash-heavy), 1 = medium, 2 = large (mostly clash-free)
    mp, mu = draw(st.integers(0, 2)), draw(st.integers(0, 2))
    mode = 2 if (mp == 2 and mu == 2) else 0
    pp = [P_POOL[: draw(st.integers(2, len(P_POOL)))], P_POOL + [f"p{i}" for i in range(draw(st.integers(0, 12)))], P_POOL + [f"p{i}" for i in range(40)]][mp]
    uu = [U_POOL[: draw(st.integers(2, len(U_POOL)))], U_POOL + [f"w{i}/" for i in range(draw(st.integers(0, 12)))], U_POOL + [f"w{i}/" for i in range(40)]][mu]
    recs = []
    for _ in range(n):
        p = draw(st.sampled_from(pp))
        u = draw(st.sampled_from(uu))
        ps = [x for x in draw(st.lists(st.sampled_from(pp), max_size=2)) if x != p]
        us = [x for x in draw(st.lists(st.sampled_from(uu), max_size=2)) if x != u]
        recs.append({"prefix": p, "uri_prefix": u, "prefix_synonyms": ps, "uri_prefix_synonyms": us, "pattern": None})
    if mode == 2 and n >= 2:
        for _ in range(draw(st.integers(0, 2))):
            i, j = draw(st.integers(0, n - 1)), draw(st.integers(0, n - 1))
            if i == j:
                continue
            side = draw(st.sampled_from(["prefix", "uri_prefix"]))
            src = draw(st.sampled_from([recs[i][side], *recs[i][side + "_synonyms"]]))
            if draw(st.booleans()):
                if src not in [recs[j][side], *recs[j][side + "_synonyms"]]:
                    recs[j][side + "_synonyms"].append(src)  # canonical/synonym or synonym/synonym clash
            elif src not in recs[j][side + "_synonyms"]:
                recs[j][side] = src  # canonical/canonical or synonym/canonical clash
    perm = list(draw(st.permutations(range(n)))) if n > 1 else list(range(n))
    return {"records": recs, "perm": perm}


def _expect(records):
    cur, uri = clash_sets(records)
    if uri:
        return "DuplicateURIPrefixes", cur, uri
    if cur:
        return "DuplicatePrefixes", cur, uri
    return "ok", cur, uri


def _check_success(c: Converter, records, what: str):
    model = Model(records)
    if len(c.records) != len(records):
        raise Violation(f"{what}: {len(records)} records in, {len(c.records)} records out")
    for r in records:
        for p in prefixes_of(r):
            got = c.get_record(p)
            if got is None or norm_record(dump_record(got)) != norm_record(r):
                raise Violation(f"{what}: prefix {p!r} does not resolve to its record")
            if c.standardize_prefix(p) != r["prefix"] or c.prefix_map.get(p) != r["uri_prefix"]:
                raise Violation(f"{what}: prefix {p!r} resolves to {c.standardize_prefix(p)!r}/{c.prefix_map.get(p)!r}")
        for u in uri_prefixes_of(r):
            pr = c.parse_uri(u, return_none=True)
            if pr is None or (pr[0], pr[1]) != (r["prefix"], ""):
                raise Violation(f"{what}: URI prefix {u!r} parses to {pr!r}, its record is {r['prefix']!r}")
            if c.reverse_prefix_map.get(u) != r["prefix"]:
                raise Violation(f"{what}: reverse_prefix_map[{u!r}] = {c.reverse_prefix_map.get(u)!r}")
    bm, rbm = dict(c.bimap), dict(c.reverse_bimap)
    if len(bm) != len(records) or len(rbm) != len(records):
        raise Violation(f"{what}: bimap has {len(bm)} / reverse_bimap {len(rbm)} entries for {len(records)} records")
    if {v: k for k, v in bm.items()} != rbm or bm != {r["prefix"]: r["uri_prefix"] for r in records}:
        raise Violation(f"{what}: bimap {bm!r} and reverse_bimap {rbm!r} are not mutually inverse over the records")
    if c.get_prefixes(include_synonyms=True) != set(model.all_prefixes()) or c.get_prefixes() != {r["prefix"] for r in records}:
        raise Violation(f"{what}: get_prefixes disagrees with the records")
    if c.get_uri_prefixes(include_synonyms=True) != set(model.all_uri_prefixes()) or c.get_uri_prefixes() != {r["uri_prefix"] for r in records}:
        raise Violation(f"{what}: get_uri_prefixes disagrees with the records")


def _check_listing(e, kind, records, clash, what):
    side = uri_prefixes_of if kind == "DuplicateURIPrefixes" else prefixes_of
    listed_strings = set()
    listed_records = []
    for s in e.duplicates:
        r1, r2 = dump_record(s.record_1), dump_record(s.record_2)
        if s.prefix not in side(r1) or s.prefix not in side(r2):
            raise Violation(f"{what}: {kind} lists {s.prefix!r} for records that do not both claim it")
        if s.record_1 is s.record_2:
            raise Violation(f"{what}: {kind} pairs a record with itself")
        listed_strings.add(s.prefix)
        listed_records += [norm_record(r1), norm_record(r2)]
    if listed_strings != clash:
        raise Violation(f"{what}: {kind} lists clashes {sorted(listed_strings)!r}, model finds {sorted(clash)!r}")
    for r in records:
        if set(side(r)) & clash and norm_record(r) not in listed_records:
            raise Violation(f"{what}: record {r['prefix']!r} is involved in a clash but not listed")


def _attempt(build, records, what, stats):
    stats.ev()
    exp, cur, uri = _expect(records)
    try:
        c = build()
    except pydantic.ValidationError as e:
        # only a record listing its OWN canonical prefix / URI prefix among the synonyms of the same side may be refused by
        # the Record model; the generators of these sub-checks never produce one
        raise Violation(f"{what}: the Record model refused a record that does not list its own canonical values as synonyms: {str(e)[:300]}") from e
    except (curies.DuplicateURIPrefixes, curies.DuplicatePrefixes) as e:
        # the documented classes are what counts - a more specific subclass is still a DuplicateURIPrefixes / DuplicatePrefixes
        kind = "DuplicateURIPrefixes" if isinstance(e, curies.DuplicateURIPrefixes) else "DuplicatePrefixes"
        if exp == "ok":
            raise Violation(f"{what}: raised {kind} on a clash-free collection") from e
        if kind != exp:
            raise Violation(f"{what}: raised {kind}, expected {exp} (URI clashes {sorted(uri)!r}, CURIE clashes {sorted(cur)!r})") from e
        _check_listing(e, kind, records, uri if kind == "DuplicateURIPrefixes" else cur, what)
        str(e)
        return None
    if exp != "ok":
        raise Violation(f"{what}: accepted a collection with clashes (CURIE {sorted(cur)!r}, URI {sorted(uri)!r})")
    _check_success(c, records, what)
    return c


def _classify(records, stats, unit, where="direct"):
    exp, cur, uri = _expect(records)
    stats.cls(f"{where}:outcome:" + exp)
    canon_p = [r["prefix"] for r in records]
    canon_u = [r["uri_prefix"] for r in records]
    klass = None
    if cur and uri:
        klass = "clash-both-sides"
    elif (cur or uri) and all(canon_p.count(s) <= 1 for s in cur) and all(canon_u.count(s) <= 1 for s in uri):
        klass = "clash-only-via-synonym"
    elif exp == "ok" and len(records) >= 3 and any(r["prefix_synonyms"] for r in records) and any(r["uri_prefix_synonyms"] for r in records):
        klass = "valid-3plus-with-synonyms"
    if klass:
        stats.nontrivial(unit, klass)


def check_direct(case, stats: Stats) -> None:
    recs = case["records"]
    perm = case["perm"]
    _attempt(lambda: Converter(mk_records(recs)), recs, "Converter(records)", stats)
    permuted = [recs[i] for i in perm]
    _attempt(lambda: Converter(mk_records(permuted)), permuted, "Converter(permuted records)", stats)
    _attempt(lambda: Converter.from_extended_prefix_map([dict(r) for r in recs]), recs, "from_extended_prefix_map(dicts)", stats)
    _attempt(lambda: curies.load_extended_prefix_map([dict(r) for r in permuted]), permuted, "load_extended_prefix_map(dicts)", stats)
    _classify(recs, stats, {"records": recs})


# ---------------------------------------------------------------------------------------------- loaders
@st.composite
def loader_inputs(draw, tier="quick"):
    pp = P_POOL + ["p0", "p1", "p2", "p3"]
    uu = U_POOL + ["w0/", "w1/", "w2/", "w3/"]
    kind = draw(st.sampled_from(["prefix_map", "priority", "reverse", "jsonld"]))
    if kind == "prefix_map" or kind == "jsonld":
        keys = draw(st.lists(st.sampled_from([p for p in pp if (p and not p.startswith("@")) or kind == "prefix_map"]), unique=True, max_size=5))
        data = [[k, draw(st.sampled_from(uu))] for k in keys]
    elif kind == "priority":
        keys = draw(st.lists(st.sampled_from(pp), unique=True, max_size=4))
        data = [[k, draw(st.lists(st.sampled_from(uu), unique=True, min_size=1, max_size=3))] for k in keys]
    else:
        keys = draw(st.lists(st.sampled_from(uu), unique=True, max_size=6))
        data = [[k, draw(st.sampled_from(pp))] for k in keys]
    expanded = draw(st.booleans())
    return {"kind": kind, "data": data, "expanded": expanded}


def check_loader(case, stats: Stats) -> None:
    kind, data = case["kind"], case["data"]
    if kind == "prefix_map":
        recs = [{"prefix": k, "uri_prefix": v, "prefix_synonyms": [], "uri_prefix_synonyms": [], "pattern": None} for k, v in data]
        _attempt(lambda: Converter.from_prefix_map(dict(map(tuple, data))), recs, "from_prefix_map", stats)
        _attempt(lambda: curies.load_prefix_map(dict(map(tuple, data))), recs, "load_prefix_map", stats)
    elif kind == "jsonld":
        recs = [{"prefix": k, "uri_prefix": v, "prefix_synonyms": [], "uri_prefix_synonyms": [], "pattern": None} for k, v in data]
        ctx = {k: ({"@id": v, "@prefix": True} if case["expanded"] else v) for k, v in data}
        _attempt(lambda: Converter.from_jsonld({"@context": ctx}), recs, "from_jsonld", stats)
    elif kind == "priority":
        recs = [{"prefix": k, "uri_prefix": v[0], "prefix_synonyms": [], "uri_prefix_synonyms": list(v[1:]), "pattern": None} for k, v in data]
        _attempt(lambda: Converter.from_priority_prefix_map({k: list(v) for k, v in data}), recs, "from_priority_prefix_map", stats)
    else:
        groups: dict[str, list[str]] = {}
        for u, p in data:
            groups.setdefault(p, []).append(u)
        recs = []
        for p, us in groups.items():
            us = sorted(us, key=len)
            recs.append({"prefix": p, "uri_prefix": us[0], "prefix_synonyms": [], "uri_prefix_synonyms": us[1:], "pattern": None})
        cur, uri = clash_sets(recs)
        if cur or uri:
            raise Violation("harness: a reverse prefix map can never denote a clash")  # pragma: no cover
        stats.ev()
        try:
            c = Converter.from_reverse_prefix_map({u: p for u, p in data})
        except (curies.DuplicateURIPrefixes, curies.DuplicatePrefixes) as e:
            raise Violation(f"from_reverse_prefix_map raised {type(e).__name__} although a reverse map cannot clash") from e
        # canonical choice among equally short URI prefixes is free: compare on sets
        if len(c.records) != len(recs):
            raise Violation("from_reverse_prefix_map: wrong number of records")
        for r in recs:
            got = c.get_record(r["prefix"])
            if got is None or set(uri_prefixes_of(dump_record(got))) != set(uri_prefixes_of(r)):
                raise Violation(f"from_reverse_prefix_map: record {r['prefix']!r} has the wrong URI prefixes")
        bm, rbm = dict(c.bimap), dict(c.reverse_bimap)
        if {v: k for k, v in bm.items()} != rbm or len(bm) != len(recs):
            raise Violation("from_reverse_prefix_map: bimap / reverse_bimap not inverse bijections")
    _classify(recs, stats, {"loader": kind, "data": data}, "loader")
    stats.cls("loader:" + kind)


# ---------------------------------------------------------------------------------------------- self synonyms
@st.composite
def self_synonym_records(draw, tier="quick"):
    p = draw(st.text(S.UNICODE, max_size=3))
    u = draw(st.text(S.UNICODE, max_size=4))
    ps = draw(st.lists(S.txt("ab", max_size=2), max_size=2))
    us = draw(st.lists(S.txt("uv/", max_size=2), max_size=2))
    side = draw(st.sampled_from(["prefix", "uri", "both", "none"]))
    if side in ("prefix", "both"):
        ps.insert(draw(st.integers(0, len(ps))), p)
    else:
        ps = [x for x in ps if x != p]
    if side in ("uri", "both"):
        us.insert(draw(st.integers(0, len(us))), u)
    else:
        us = [x for x in us if x != u]
    return {"prefix": p, "uri_prefix": u, "prefix_synonyms": ps, "uri_prefix_synonyms": us, "side": side}


def check_self(case, stats: Stats) -> None:
    stats.ev()
    bad = case["prefix"] in case["prefix_synonyms"] or case["uri_prefix"] in case["uri_prefix_synonyms"]
    import collections

    # the synonym fields accept what pydantic coerces to list[str]; the rule must hold whatever container the caller used
    containers = {"tuple": tuple, "set": set, "frozenset": frozenset, "deque": collections.deque, "generator": lambda xs: (x for x in xs),
                  "dict-keys": lambda xs: dict.fromkeys(xs).keys()}
    extra = []
    for cname, mk in containers.items():
        extra.append((f"Record(..., synonyms as {cname})", lambda mk=mk: Record(prefix=case["prefix"], uri_prefix=case["uri_prefix"], prefix_synonyms=mk(case["prefix_synonyms"]), uri_prefix_synonyms=mk(case["uri_prefix_synonyms"]))))
    extra.append(("from_extended_prefix_map(synonyms as sets)", lambda: Converter.from_extended_prefix_map([{"prefix": case["prefix"], "uri_prefix": case["uri_prefix"], "prefix_synonyms": set(case["prefix_synonyms"]), "uri_prefix_synonyms": frozenset(case["uri_prefix_synonyms"])}])))
    for how, build in (
        ("Record(...)", lambda: Record(prefix=case["prefix"], uri_prefix=case["uri_prefix"], prefix_synonyms=list(case["prefix_synonyms"]), uri_prefix_synonyms=list(case["uri_prefix_synonyms"]))),
        *extra,
        ("from_extended_prefix_map", lambda: Converter.from_extended_prefix_map([{k: case[k] for k in ("prefix", "uri_prefix", "prefix_synonyms", "uri_prefix_synonyms")}])),
    ):
        try:
            build()
        except pydantic.ValidationError:
            if not bad:
                raise Violation(f"{how}: a record that does not list its own canonical values was rejected")
        else:
            if bad:
                raise Violation(f"{how}: accepted a record listing its own canonical prefix / URI prefix among its synonyms")
    # the same rule through the priority-map loader (first element = canonical URI prefix, rest = its synonyms)
    plist = [case["uri_prefix"], *case["uri_prefix_synonyms"]]
    bad_uri = case["uri_prefix"] in case["uri_prefix_synonyms"]
    try:
        c = Converter.from_priority_prefix_map({case["prefix"]: plist})
    except ValueError:
        if not bad_uri:
            raise Violation(f"from_priority_prefix_map rejected {plist!r} although the first URI prefix is not repeated")
    else:
        if bad_uri:
            raise Violation(f"from_priority_prefix_map accepted {plist!r}: the record lists its own canonical URI prefix among its synonyms")
        r = c.records[0]
        if r.uri_prefix in r.uri_prefix_synonyms or r.prefix in r.prefix_synonyms:
            raise Violation("from_priority_prefix_map produced a record listing its own canonical value among its synonyms")
    if bad:
        stats.nontrivial({k: case[k] for k in ("prefix", "uri_prefix", "prefix_synonyms", "uri_prefix_synonyms")}, "self-synonym-" + case["side"])
    else:
        stats.cls("self-synonym-free")


SUBS = [
    Sub(name="direct", check=check_direct, strategy=lambda tier: collections(tier), n={"quick": 2500, "thorough": 6000},
        required_classes=("direct:outcome:ok", "direct:outcome:DuplicateURIPrefixes", "direct:outcome:DuplicatePrefixes", "nt:clash-both-sides", "nt:clash-only-via-synonym")),
    Sub(name="loaders", check=check_loader, strategy=lambda tier: loader_inputs(tier), n={"quick": 1500, "thorough": 4000},
        required_classes=("loader:prefix_map", "loader:priority", "loader:reverse", "loader:jsonld")),
    Sub(name="self_synonym", check=check_self, strategy=lambda tier: self_synonym_records(tier), n={"quick": 600, "thorough": 2000},
        required_classes=("nt:self-synonym-prefix", "nt:self-synonym-uri", "self-synonym-free")),
]
