"""C02 — CURIE expansion resolves any prefix or synonym to the canonical URI prefix."""

from __future__ import annotations

from hypothesis import strategies as st

from pbt import strategies as S
from pbt.common import Stats, Sub, Violation
from pbt.model import Model
from pbt.sut import curies, history_variants, mk_converter

PROPERTY_ID = "C02"
RULE = (
    "Generated: strict converters with prefix synonyms, case variants, substring prefixes and the empty prefix, any "
    "delimiter (incl. multi-character); CURIEs are prefix+delimiter+identifier with delimiter-free prefixes (known "
    "canonical, known synonym, case-varied, truncated/extended, unknown) and identifiers that are empty or contain the "
    "delimiter, '/', '#', spaces, Unicode. One evaluation = one (converter, prefix, identifier) triple checked on expand, "
    "expand_pair, expand_reference, parse_curie, expand_all, expand_pair_all, is_curie against the linear-scan model. "
    "Every case is checked on the same converter reached through seven histories (built at once; grown string by string with all queries issued after every mutation; split into whole records and merged; grown by case-insensitive merges; every record re-merged into itself case-insensitively; after calls that must be rejected; as by-standing input of every derivation whose results were then mutated). "
    "Non-trivial = prefix is a synonym, or the empty prefix, or a case variant / proper substring / extension of another "
    "known prefix, or the identifier contains the delimiter; distinct by hash of (records, delimiter, prefix, identifier)."
)
ASSUMPTIONS = ["oracle: pbt/model.py (owner lookup by linear scan, str.partition at the first delimiter)"]


@st.composite
def cases(draw, tier="quick"):
    big = tier == "thorough"
    d = draw(S.delimiters())
    recs = draw(S.record_sets(delimiter=d, foreign_delimiters=True, max_records=((20 if draw(st.integers(0, 5)) == 0 else 8) if big else 5), max_syn=5 if big else 4))
    ps = S.all_prefixes(recs)
    alpha = S._minus(S.CURIE_ALPHA, d)
    pairs = [[p, "1"] for p in ps]
    for _ in range(draw(st.integers(1, 10 if big else 6))):
        mode = draw(st.integers(0, 5))
        if ps and mode <= 2:
            p = draw(st.sampled_from(ps))
            if mode == 1:
                p = p.swapcase()
            elif mode == 2:
                p = p[:-1] if draw(st.booleans()) else p + draw(st.sampled_from(alpha))
        elif mode == 3:
            p = ""
        else:
            p = draw(S.txt(alpha, max_size=3))
        pairs.append([p, draw(S.identifiers(d))])
    return {"spec": {"delimiter": d, "records": recs}, "pairs": pairs}


def _same_multiset(a, b):
    return sorted(a) == sorted(b)


def _check_on(c, case, stats, how, count):
    spec = case["spec"]
    recs, d = spec["records"], spec["delimiter"]
    model = Model(recs, d)
    known = model.all_prefixes()
    if count:
        stats.cls("converters")
    for p, i in case["pairs"]:
        if d in p:  # outside the property's domain (replay files written by hand could contain it)
            continue
        if count:
            stats.ev()
        curie = p + d + i
        exp = model.expand_pair(p, i)
        owner = model.owner(p)
        got = c.expand(curie)
        if got != exp:
            raise Violation(f"[{how}] expand({curie!r}) = {got!r}, model says {exp!r}")
        got = c.expand_pair(p, i)
        if got != exp:
            raise Violation(f"[{how}] expand_pair({p!r}, {i!r}) = {got!r}, model says {exp!r}")
        got = c.expand_reference(curies.ReferenceTuple(p, i))
        if got != exp:
            raise Violation(f"[{how}] expand_reference(({p!r}, {i!r})) = {got!r}, model says {exp!r}")
        got = c.is_curie(curie)
        if got is not (exp is not None):
            raise Violation(f"[{how}] is_curie({curie!r}) = {got!r}, model says {exp is not None}")
        got = c.parse_curie(curie)
        want = None if owner is None else (owner["prefix"], i)
        if (None if got is None else (got[0], got[1])) != want:
            raise Violation(f"[{how}] parse_curie({curie!r}) = {got!r}, model says {want!r}")
        exp_all = model.expand_pair_all(p, i)
        for name, got_all in (("expand_all", c.expand_all(curie)), ("expand_pair_all", c.expand_pair_all(p, i))):
            if exp_all is None:
                if got_all is not None:
                    raise Violation(f"[{how}] {name} for unknown prefix {p!r} returned {got_all!r}")
                continue
            if got_all is None:
                raise Violation(f"[{how}] {name} for known prefix {p!r} returned None, expected {exp_all!r}")
            got_all = list(got_all)
            if not got_all or got_all[0] != exp_all[0]:
                raise Violation(f"[{how}] {name}({curie!r}) does not start with the canonical expansion {exp_all[0]!r}: {got_all!r}")
            if not _same_multiset(got_all[1:], exp_all[1:]):
                raise Violation(f"[{how}] {name}({curie!r}) = {got_all!r}, expected canonical first then exactly {exp_all[1:]!r}")
        # classification
        klass = None
        if owner is not None and p != owner["prefix"]:
            klass = "synonym"
        elif p == "" and owner is not None:
            klass = "empty-prefix-known"
        elif d in i:
            klass = "identifier-contains-delimiter"
        elif any(q != p and (q.casefold() == p.casefold() or (p and p in q) or (q and q in p)) for q in known):
            klass = "variant-of-other-known-prefix"
        if exp is None and count:
            stats.cls("unknown-prefix")
        if klass and count:
            stats.nontrivial({"records": recs, "delimiter": d, "prefix": p, "identifier": i}, klass)


def check(case, stats: Stats) -> None:
    spec = case["spec"]
    _check_on(mk_converter(spec), case, stats, "built at once", True)
    d = spec["delimiter"]
    n = len(spec["records"])

    def queries(c):
        for p, i in case["pairs"]:
            if d in p:
                continue
            curie = p + d + i
            c.expand(curie), c.expand_all(curie), c.expand_pair(p, i), c.expand_pair_all(p, i), c.is_curie(curie), c.parse_curie(curie)

    for how, conv in history_variants(spec, queries, base=False):
        _check_on(conv, case, stats, how, False)


# ------------------------------------------------------------------------------------------------ converters that come out of loaders
@st.composite
def loader_cases(draw, tier="quick"):
    d = draw(S.delimiters())
    n = draw(st.integers(1, 4))
    ps = draw(st.lists(st.sampled_from([x for x in ["a", "b", "A", "ab", "x1", "a_b", "é", ""] if d not in x]), unique=True, min_size=n, max_size=n))
    us = draw(S.url_pool(n, n))
    return {"delimiter": d, "pairs": [[p, u] for p, u in zip(ps, us)], "identifiers": [draw(S.identifiers(d)) for _ in range(3)]}


def check_loaders(case, stats: Stats) -> None:
    """The converter's delimiter is a constructor argument that every loader forwards (`**kwargs`): whichever loader a
    converter with a non-default delimiter came out of, expand must split at THAT delimiter."""
    import rdflib

    d, pairs = case["delimiter"], case["pairs"]
    pm = {p: u for p, u in pairs}
    g = rdflib.Graph(bind_namespaces="none")
    for p, u in pairs:
        g.bind(p, rdflib.Namespace(u))
    listed = {str(p): str(ns) for p, ns in g.namespaces()}
    convs = {
        "from_prefix_map": (curies.Converter.from_prefix_map(pm, delimiter=d), pm),
        "from_priority_prefix_map": (curies.Converter.from_priority_prefix_map({p: [u] for p, u in pairs}, delimiter=d), pm),
        "from_reverse_prefix_map": (curies.Converter.from_reverse_prefix_map({u: p for p, u in pairs}, delimiter=d), pm),
        "from_extended_prefix_map": (curies.Converter.from_extended_prefix_map([{"prefix": p, "uri_prefix": u} for p, u in pairs], delimiter=d), pm),
        "from_jsonld": (curies.Converter.from_jsonld({"@context": {p: u for p, u in pairs if p}}, delimiter=d), {p: u for p, u in pairs if p}),
        "from_rdflib": (curies.Converter.from_rdflib(g, delimiter=d), listed),
        "load_prefix_map": (curies.load_prefix_map(pm, delimiter=d), pm),
    }
    for how, (conv, denoted) in convs.items():
        for p, u in denoted.items():
            for i in case["identifiers"]:
                stats.ev()
                got = conv.expand(p + d + i)
                if got != u + i:
                    raise Violation(f"[{how}(..., delimiter={d!r})] expand({p + d + i!r}) = {got!r}, expected {u + i!r}")
                if conv.expand_pair(p, i) != u + i:
                    raise Violation(f"[{how}(..., delimiter={d!r})] expand_pair({p!r}, {i!r}) = {conv.expand_pair(p, i)!r}, expected {u + i!r}")
    stats.cls("loaders:delimiter=" + ("default" if d == ":" else "other"))
    if d != ":":
        stats.nontrivial(case, "loader-with-non-default-delimiter")


SUBS = [
    Sub(
        name="expand",
        check=check,
        strategy=lambda tier: cases(tier),
        n={"quick": 1500, "thorough": 4000},
        required_classes=("nt:synonym", "nt:empty-prefix-known", "nt:identifier-contains-delimiter", "unknown-prefix"),
    ),
    Sub(name="loaders", check=check_loaders, strategy=lambda tier: loader_cases(tier), n={"quick": 250, "thorough": 800},
        required_classes=("loaders:delimiter=default", "loaders:delimiter=other")),
]
