"""C12 — URI-prefix remapping and rewiring re-point records without losing information."""

from __future__ import annotations

import copy

from hypothesis import strategies as st

from pbt import strategies as S
from pbt.common import Stats, Sub, Violation
from pbt.model import Model, norm_record, norm_records, prefixes_of, uri_prefixes_of
from pbt.sut import BUILD_MODES, Converter, curies, dump_records, mk_converter_via, mk_records

PROPERTY_ID = "C12"
RULE = (
    "Generated: strict converters (1-5 records, synonyms on both sides) and INJECTIVE mappings by construction (distinct "
    "values): for remap_uri_prefixes keys are canonical URI prefixes / URI synonyms / unknown strings, for rewire keys are "
    "canonical CURIE prefixes / synonyms / unknown strings; values are unused strings, the record's own synonym, its own "
    "canonical URI prefix, or another record's URI prefix; a separate non-injective arm only for the TransitiveError "
    "iff-clause. One evaluation = one call compared with an exact per-record model that is tolerant where a record matches "
    "several keys (any one mapped value may be the applied one): CURIE side unchanged, old URI prefixes kept, at most one "
    "gained, mapped value canonical iff unused elsewhere or already the record's own (old canonical becomes a synonym), a "
    "value owned by another record leaves both untouched; TransitiveError iff keys and values intersect; rewiring unknown "
    "prefixes adds nothing; rewire twice == once; the same call repeated on the same input converter gives the same records. Non-trivial = a key that is a synonym, a value that is the record's own "
    "synonym, or a clash with another record; distinct by hash of (function, records, mapping)."
)
ASSUMPTIONS = [
    "oracle: exact per-record model written from the statement; ownership of a mapped value is judged on the ORIGINAL converter",
    "default delimiter; patterns are not asserted on",
]


@st.composite
def cases(draw, tier="quick"):
    fn = draw(st.sampled_from(["remap_uri", "rewire"]))
    recs = draw(S.record_sets(delimiter=":", repeat_synonyms=True, min_records=1, max_records=5, max_syn=4, unicode_arm=False))
    ups = S.all_uri_prefixes(recs)
    ps = S.all_prefixes(recs)
    key_pool = (ups if fn == "remap_uri" else ps) + ["zz", "yy/"]
    keys = draw(st.lists(st.sampled_from(key_pool), unique=True, min_size=1, max_size=4))
    used, mapping = set(), []
    for i, k in enumerate(keys):
        side = uri_prefixes_of if fn == "remap_uri" else prefixes_of
        owner = next((r for r in recs if k in side(r)), None)
        mode = draw(st.integers(0, 6))
        if owner is not None and mode == 0 and owner["uri_prefix_synonyms"]:
            v = draw(st.sampled_from(owner["uri_prefix_synonyms"]))
        elif owner is not None and mode == 1:
            v = owner["uri_prefix"]
        elif mode == 2:
            v = draw(st.sampled_from(ups))
        else:
            v = draw(st.sampled_from(["http://new0/", "http://new1/", "n/", "N/", "http://purl.obolibrary.org/obo/NEW_"]))
        if v in used:
            v = f"http://fresh{i}/"
        used.add(v)
        mapping.append([k, v])
    return {"fn": fn, "records": recs, "mapping": mapping, "build": draw(st.sampled_from(BUILD_MODES))}


@st.composite
def transitive_cases(draw, tier="quick"):
    recs = draw(S.record_sets(delimiter=":", repeat_synonyms=True, min_records=1, max_records=3, max_syn=2, unicode_arm=False))
    pool = S.all_uri_prefixes(recs) + ["a/", "b/", "c/"]
    keys = draw(st.lists(st.sampled_from(pool), unique=True, min_size=1, max_size=3))
    mapping = [[k, draw(st.sampled_from(pool + ["d/", "e/"]))] for k in keys]
    return {"fn": "remap_uri", "records": recs, "mapping": mapping}


def _apply(rec, v, model: Model):
    """What the statement says happens to one record when value v is applied to it."""
    out = copy.deepcopy(rec)
    other = model.uri_owner(v)
    if v == rec["uri_prefix"]:
        return out
    if other is not None and other["uri_prefix"] != rec["uri_prefix"]:
        return out  # owned by another record: untouched
    out["uri_prefix_synonyms"] = sorted((set(rec["uri_prefix_synonyms"]) | {rec["uri_prefix"]}) - {v})
    out["uri_prefix"] = v
    return out


def _call(fn, conv, mapping):
    return curies.remap_uri_prefixes(conv, mapping) if fn == "remap_uri" else curies.rewire(conv, mapping)


def check(case, stats: Stats) -> None:
    stats.ev()
    fn, recs = case["fn"], case["records"]
    mapping = {k: v for k, v in case["mapping"]}
    injective = len(set(mapping.values())) == len(mapping)
    model = Model(recs)
    conv = mk_converter_via({"delimiter": ":", "records": recs}, case.get("build", "at-once"))
    transitive = bool(set(mapping) & set(mapping.values()))
    TE = curies.reconciliation.TransitiveError
    try:
        out = _call(fn, conv, dict(mapping))
    except TE:
        stats.cls("TransitiveError")
        if fn != "remap_uri" or not transitive:
            raise Violation(f"{fn}({mapping!r}) raised TransitiveError although no string is both key and value")
        stats.nontrivial({"fn": fn, "records": recs, "mapping": case["mapping"]}, "transitive")
        return
    except Exception as e:  # noqa: BLE001
        if not injective:
            return  # outside the property's domain (non-injective arm only checks the TransitiveError clause)
        raise Violation(f"{fn}({mapping!r}) raised {type(e).__name__} on an injective mapping: {str(e)[:300]}") from e
    if fn == "remap_uri" and transitive:
        raise Violation(f"remap_uri_prefixes({mapping!r}) did not raise TransitiveError although {sorted(set(mapping) & set(mapping.values()))!r} are keys and values")
    if not injective:
        return
    stats.cls("ok:" + fn)
    got = dump_records(out)
    if len(got) != len(recs):
        raise Violation(f"{fn}({mapping!r}): {len(recs)} records in, {len(got)} out")
    by_prefix = {r["prefix"]: r for r in got}
    side = uri_prefixes_of if fn == "remap_uri" else prefixes_of
    klass = None
    for r in recs:
        g = by_prefix.get(r["prefix"])
        if g is None or set(g["prefix_synonyms"]) != set(r["prefix_synonyms"]):
            raise Violation(f"{fn}({mapping!r}): CURIE side of record {r['prefix']!r} changed: {g!r}")
        old_u, new_u = set(uri_prefixes_of(r)), set(uri_prefixes_of(g))
        if not old_u <= new_u:
            raise Violation(f"{fn}({mapping!r}): record {r['prefix']!r} lost URI prefixes {sorted(old_u - new_u)!r}")
        if len(new_u - old_u) > 1:
            raise Violation(f"{fn}({mapping!r}): record {r['prefix']!r} gained more than one URI prefix {sorted(new_u - old_u)!r}")
        cands = [mapping[k] for k in side(r) if k in mapping]
        if not cands:
            if norm_record(g) != norm_record(r):
                raise Violation(f"{fn}({mapping!r}): record {r['prefix']!r} matches no key but changed to {g!r}")
            continue
        options = [norm_record(_apply(r, v, model)) for v in cands]
        if norm_record(g) not in options:
            raise Violation(f"{fn}({mapping!r}): record {r['prefix']!r} became {norm_record(g)!r}; the statement allows {options!r}")
        for k in side(r):
            if k in mapping:
                v = mapping[k]
                o = model.uri_owner(v)
                if k != r["prefix"] and k != r["uri_prefix"]:
                    klass = klass or "key-is-synonym"
                if v in r["uri_prefix_synonyms"]:
                    klass = "value-is-own-synonym"
                elif o is not None and o["uri_prefix"] != r["uri_prefix"]:
                    klass = "clash-with-other-record"
    # unknown keys add nothing
    known_u = set(model.all_uri_prefixes())
    allowed_new = {mapping[k] for r in recs for k in side(r) if k in mapping}
    invented = {u for r in got for u in uri_prefixes_of(r)} - known_u - allowed_new
    if invented:
        raise Violation(f"{fn}({mapping!r}) invented URI prefixes {sorted(invented)!r}")
    # behaviour follows the records
    for r in got:
        for p in prefixes_of(r):
            if out.expand(p + ":1") != r["uri_prefix"] + "1":
                raise Violation(f"{fn}({mapping!r}): expand({p + ':1'!r}) = {out.expand(p + ':1')!r}, record says {r['uri_prefix'] + '1'!r}")
        for u in uri_prefixes_of(r):
            pr = out.parse_uri(u, return_none=True)
            if pr is None or pr[0] != r["prefix"] or pr[1] != "":
                raise Violation(f"{fn}({mapping!r}): URI prefix {u!r} parses to {pr!r}")
    # the functions are pure: asking again on the SAME input converter (whose bookkeeping the first call may have touched)
    # gives the same records, and so does the sister function on an equivalent mapping
    again = dump_records(_call(fn, conv, dict(mapping)))
    if norm_records(again) != norm_records(got):
        raise Violation(f"{fn}({mapping!r}) called a second time on the same input converter gives {norm_records(again)!r}, the first call gave {norm_records(got)!r}")
    if norm_records(dump_records(conv)) != norm_records(recs):
        raise Violation(f"{fn}({mapping!r}) changed its input converter to {norm_records(dump_records(conv))!r}")
    if fn == "rewire":
        twice = dump_records(curies.rewire(out, dict(mapping)))
        if norm_records(twice) != norm_records(got):
            raise Violation(f"rewire({mapping!r}) applied twice gives {norm_records(twice)!r}, once gives {norm_records(got)!r}")
    if klass:
        stats.nontrivial({"fn": fn, "records": recs, "mapping": case["mapping"]}, klass)


SUBS = [
    Sub(name="injective", check=check, strategy=lambda tier: cases(tier), n={"quick": 2500, "thorough": 6000},
        required_classes=("ok:remap_uri", "ok:rewire", "nt:key-is-synonym", "nt:value-is-own-synonym", "nt:clash-with-other-record", "TransitiveError")),
    Sub(name="transitive_iff", check=check, strategy=lambda tier: transitive_cases(tier), n={"quick": 600, "thorough": 2000}),
]
