"""C07 — derived operations agree with the two primitive parsers."""

from __future__ import annotations

from hypothesis import strategies as st

from pbt import strategies as S
from pbt.common import Stats, Sub, Violation
from pbt.model import NODELIM, Model
from pbt.sut import history_variants, mk_incremental_queried, mk_split_merge, query_everything, call, mk_converter

PROPERTY_ID = "C07"
RULE = (
    "Generated: strict converters built to be ambiguous (a URI prefix equal to CURIE-prefix+delimiter(+text), the CURIE "
    "prefix 'http' next to URI prefix 'http://...'), any delimiter; strings that are a CURIE, a URI, both, neither, "
    "delimiter-free or empty. One evaluation = one (converter, string) pair on which is_uri <=> compress!=None <=> "
    "parse_uri!=None, is_curie <=> (delimiter present and prefix known) <=> expand!=None, parse == URI parse else CURIE "
    "parse else None (model decides the side), compress_or_standardize / expand_or_standardize == CURIE / canonical URI of "
    "parse, format_curie joins with the delimiter, compress_strict / expand_strict == strict=True calls. "
    "Every case is checked on the same converter reached through seven histories (built at once; grown string by string with all queries issued after every mutation; split into whole records and merged; grown by case-insensitive merges; every record re-merged into itself case-insensitively; after calls that must be rejected; as by-standing input of every derivation whose results were then mutated). "
    "Non-trivial = the string is recognised both as URI and as CURIE, or is delimiter-free, or empty; distinct by hash of "
    "(records, delimiter, string)."
)
ASSUMPTIONS = ["oracle: the equivalences of the statement, with pbt/model.py deciding on which side each string is recognised"]


def _check_on(c, case, stats: Stats) -> None:
    spec = case["spec"]
    recs, d = spec["records"], spec["delimiter"]
    model = Model(recs, d)
    stats.cls("converters")
    strings = list(dict.fromkeys(case["curies"] + case["uris"]))
    for s in strings:
        stats.ev()
        mu = model.parse_uri(s)
        mc = model.parse_curie(s)
        m_is_curie = mc is not None and mc != NODELIM
        # --- URI side
        iu, co, pu = c.is_uri(s), c.compress(s), c.parse_uri(s, return_none=True)
        if not (iu == (co is not None) == (pu is not None)):
            raise Violation(f"is_uri({s!r})={iu}, compress={co!r}, parse_uri={pu!r} disagree about recognition")
        if pu is not None and co != pu[0] + d + pu[1]:
            raise Violation(f"compress({s!r}) = {co!r} but parse_uri gives {tuple(pu)!r}, i.e. {pu[0] + d + pu[1]!r}")
        if iu != (mu is not None):
            raise Violation(f"is_uri({s!r}) = {iu}, but registered-prefix scan says {mu is not None}")
        # --- CURIE side
        ic, ex = c.is_curie(s), c.expand(s)
        if not (ic == (ex is not None) == m_is_curie):
            raise Violation(f"is_curie({s!r})={ic}, expand={ex!r}, (delimiter present and prefix known)={m_is_curie}")
        # --- parse precedence
        exp_parse = mu if mu is not None else (mc if m_is_curie else None)
        got = c.parse(s, strict=False)
        got_t = None if got is None else (got[0], got[1])
        if got_t != exp_parse:
            raise Violation(f"parse({s!r}) = {got_t!r}, expected {exp_parse!r} (URI parse {mu!r}, CURIE parse {mc!r})")
        cos = c.compress_or_standardize(s)
        want = None if exp_parse is None else exp_parse[0] + d + exp_parse[1]
        if cos != want:
            raise Violation(f"compress_or_standardize({s!r}) = {cos!r}, CURIE of parse(s) is {want!r}")
        eos = c.expand_or_standardize(s)
        want = None if exp_parse is None else model.owner(exp_parse[0])["uri_prefix"] + exp_parse[1]
        if eos != want:
            raise Violation(f"expand_or_standardize({s!r}) = {eos!r}, canonical URI of parse(s) is {want!r}")
        if exp_parse is not None:
            fc = c.format_curie(exp_parse[0], exp_parse[1])
            if fc != exp_parse[0] + d + exp_parse[1]:
                raise Violation(f"format_curie{exp_parse!r} = {fc!r} does not join with delimiter {d!r}")
        # --- *_strict == strict=True
        for a, b, nm in ((c.compress_strict, lambda x: c.compress(x, strict=True), "compress"), (c.expand_strict, lambda x: c.expand(x, strict=True), "expand")):
            ta, va = call(a, s)
            tb, vb = call(b, s)
            if ta != tb or (ta == "ok" and va != vb) or (ta == "exc" and type(va) is not type(vb)):
                raise Violation(f"{nm}_strict({s!r}) -> {ta}:{va!r} but {nm}({s!r}, strict=True) -> {tb}:{vb!r}")
            if ta == "ok" and va != (co if nm == "compress" else ex):
                raise Violation(f"{nm}_strict({s!r}) = {va!r} differs from {nm}({s!r}) = {(co if nm == 'compress' else ex)!r}")
            if ta == "exc" and (co if nm == "compress" else ex) is not None:
                raise Violation(f"{nm}_strict({s!r}) raised {type(va).__name__} though {nm}() succeeds")
        klass = None
        if mu is not None and m_is_curie:
            klass = "both-uri-and-curie"
        elif s == "":
            klass = "empty-string"
        elif d not in s:
            klass = "delimiter-free"
        if mu is None and not m_is_curie:
            stats.cls("neither")
        elif mu is not None:
            stats.cls("uri")
        else:
            stats.cls("curie-only")
        if klass:
            stats.nontrivial({"records": recs, "delimiter": d, "s": s}, klass)
    # format_curie on arbitrary pairs
    for p, i in case.get("pairs", []):
        stats.ev()
        fc = c.format_curie(p, i)
        if fc != p + d + i:
            raise Violation(f"format_curie({p!r}, {i!r}) = {fc!r}")


@st.composite
def cases(draw, tier="quick"):
    case = draw(S.scalar_cases(tier, ambiguous=True, prefix_free=False, prefix_no_delimiter=draw(st.integers(0, 3)) > 0))
    recs, d = case["spec"]["records"], case["spec"]["delimiter"]
    # strings that are both: (URI prefix that looks like a CURIE) + identifier
    ups = S.all_uri_prefixes(recs)
    extra = []
    for u in ups:
        if d in u:
            extra.append(u + "1")
            extra.append(u)
    case["curies"] = case["curies"] + extra
    case["pairs"] = [[draw(st.text(S.UNICODE, max_size=3)), draw(S.identifiers(d))] for _ in range(draw(st.integers(0, 3)))]
    return case



def check(case, stats: Stats) -> None:
    spec = case["spec"]
    _check_on(mk_converter(spec), case, stats)
    # the same laws on the same converter reached through every other history (grown string by string with all queries
    # issued after every mutation, merged from whole records, case-insensitive merges, by-standing input of derivations)
    for how, conv in history_variants(spec, lambda c: query_everything(c, case["uris"] + case["curies"], case.get("pairs", [])), base=False):
        try:
            _check_on(conv, case, Stats())
        except Violation as v:
            v.message = f"[converter {how}] " + v.message
            raise


SUBS = [
    Sub(
        name="derived_ops",
        check=check,
        strategy=lambda tier: cases(tier),
        n={"quick": 1000, "thorough": 3000},
        required_classes=("nt:both-uri-and-curie", "nt:delimiter-free", "nt:empty-string", "neither", "uri", "curie-only"),
    )
]

from pbt.fuzzstage import atheris_sub  # noqa: E402

SUBS.append(atheris_sub("C07", SUBS[0].check))
