"""C06 — standardisation is canonical, idempotent and meaning-preserving."""

from __future__ import annotations

from hypothesis import strategies as st

from pbt import strategies as S
from pbt.common import Stats, Sub, Violation
from pbt.model import NODELIM, Model
from pbt.sut import history_variants, mk_incremental_queried, mk_split_merge, query_everything, mk_converter

PROPERTY_ID = "C06"
RULE = (
    "Generated: strict converters (synonyms on both sides, case variants, empty prefix, any delimiter; an arm with "
    "pairwise prefix-free URI prefixes; one case in four with prefixes that contain the delimiter); inputs are known / "
    "unknown / synonym / case-varied prefixes and near misses (known prefix followed or preceded by the delimiter, whole "
    "CURIEs, surrounding whitespace, doubled), CURIEs and URIs. "
    "One evaluation = one (converter, input) pair: standardize_prefix / standardize_curie / standardize_uri equal the "
    "linear-scan model, prefix and curie standardisation are idempotent, expand(standardize_curie(c)) == expand(c); on "
    "prefix-free maps standardize_uri is idempotent and compress(standardize_uri(u)) == compress(u). "
    "Every case is checked on the same converter reached through seven histories (built at once; grown string by string with all queries issued after every mutation; split into whole records and merged; grown by case-insensitive merges; every record re-merged into itself case-insensitively; after calls that must be rejected; as by-standing input of every derivation whose results were then mutated). "
    "Non-trivial = the input is a CURIE-prefix synonym, goes through a URI-prefix synonym, or is a case variant of a "
    "different known value; distinct by hash of (records, delimiter, kind, input)."
)
ASSUMPTIONS = [
    "oracle: pbt/model.py + algebraic laws (idempotence, meaning preservation)",
    "where the canonical prefix of the owning record itself contains the delimiter, standardize_curie is compared with the model "
    "(split at the first delimiter, look up, re-join) but its idempotence / expand-preservation are not asserted: the result "
    "re-parses at a different place by the first-delimiter rule of C02, whose quantifier excludes such prefixes explicitly",
]


@st.composite
def cases(draw, tier="quick"):
    # one case in four registers prefixes that CONTAIN the delimiter (e.g. 'kegg.compound' with delimiter '.'): prefix
    # standardisation is a plain lookup and must not care
    case = draw(S.scalar_cases(tier, prefix_no_delimiter=draw(st.integers(0, 3)) != 0))
    recs = case["spec"]["records"]
    d = case["spec"]["delimiter"]
    ps = S.all_prefixes(recs)
    alpha = S._minus(S.CURIE_ALPHA, d)
    prefixes = list(ps)
    for _ in range(draw(st.integers(0, 5))):
        mode = draw(st.integers(0, 3))
        if ps and mode <= 1:
            p = draw(st.sampled_from(ps))
            p = p.swapcase() if mode == 0 else (p[:-1] if draw(st.booleans()) else p + draw(st.sampled_from(alpha)))
        elif mode == 2:
            p = draw(S.txt(alpha, max_size=3))
        else:
            p = draw(st.text(S.UNICODE, max_size=3))
        prefixes.append(p)
    prefixes.append("")
    # near misses of known prefixes: followed / preceded by the delimiter, whole CURIEs, surrounding whitespace - all unknown
    # unless registered as such
    for p in draw(st.lists(st.sampled_from(ps), max_size=3)) if ps else []:
        near = draw(st.sampled_from(["{p}{d}", "{p}{d}{i}", "{d}{p}", " {p}", "{p} ", "{p}\n", "{p}{d}{d}", "{p}{p}"]))
        prefixes.append(near.format(p=p, d=d, i=draw(S.identifiers(d))))
    case["prefixes"] = prefixes
    return case


def _check_on(c, case, stats: Stats) -> None:
    spec = case["spec"]
    recs, d = spec["records"], spec["delimiter"]
    model = Model(recs, d)
    pf = model.is_prefix_free()
    stats.cls("prefix-free-converters" if pf else "nested-converters")
    known = model.all_prefixes()
    for p in case["prefixes"]:
        stats.ev()
        got, exp = c.standardize_prefix(p), model.standardize_prefix(p)
        if got != exp:
            raise Violation(f"standardize_prefix({p!r}) = {got!r}, model says {exp!r}")
        if got is not None:
            again = c.standardize_prefix(got)
            if again != got:
                raise Violation(f"standardize_prefix not idempotent: {p!r} -> {got!r} -> {again!r}")
            if got != p:
                stats.nontrivial({"records": recs, "delimiter": d, "kind": "prefix", "x": p}, "prefix-synonym")
        elif any(q.casefold() == p.casefold() for q in known):
            stats.nontrivial({"records": recs, "delimiter": d, "kind": "prefix", "x": p}, "case-variant-unknown")
        elif d in p and any(p.startswith(q + d) for q in known):
            stats.nontrivial({"records": recs, "delimiter": d, "kind": "prefix", "x": p}, "known-prefix-plus-delimiter-unknown")
    for s in case["curies"]:
        stats.ev()
        got, exp = c.standardize_curie(s), model.standardize_curie(s)
        if got != exp:
            raise Violation(f"standardize_curie({s!r}) = {got!r}, model says {exp!r}")
        if got is None:
            continue
        head, _, tail = s.partition(d)
        if not got.endswith(d + tail) or got[: len(got) - len(d + tail)] != model.standardize_prefix(head):
            raise Violation(f"standardize_curie({s!r}) = {got!r} rewrote more than the prefix part")
        canon = model.standardize_prefix(head)
        if (canon + d).find(d) != len(canon):
            # a canonical prefix that contains the delimiter - or whose end overlaps with it (':' before '::') - cannot be written back as a CURIE of the same converter
            # (CURIEs split at the FIRST delimiter, C02): the two re-parsing laws are not claimed there
            stats.cls("canonical-prefix-contains-delimiter:reparse-laws-skipped")
            continue
        again = c.standardize_curie(got)
        if again != got:
            raise Violation(f"standardize_curie not idempotent: {s!r} -> {got!r} -> {again!r}")
        if c.expand(got) != c.expand(s) or c.expand(s) is None:
            raise Violation(f"expand(standardize_curie({s!r})) = {c.expand(got)!r} but expand({s!r}) = {c.expand(s)!r}")
        if got != s:
            stats.nontrivial({"records": recs, "delimiter": d, "kind": "curie", "x": s}, "curie-synonym")
    for u in case["uris"]:
        stats.ev()
        got, exp = c.standardize_uri(u), model.standardize_uri(u)
        if got != exp:
            raise Violation(f"standardize_uri({u!r}) = {got!r}, model says {exp!r}")
        if got is None:
            continue
        if pf:
            again = c.standardize_uri(got)
            if again != got:
                raise Violation(f"prefix-free map: standardize_uri not idempotent: {u!r} -> {got!r} -> {again!r}")
            if c.compress(got) != c.compress(u):
                raise Violation(f"prefix-free map: compress(standardize_uri({u!r})) = {c.compress(got)!r} != compress = {c.compress(u)!r}")
        if got != u:
            stats.nontrivial({"records": recs, "delimiter": d, "kind": "uri", "x": u}, "uri-synonym" + ("-prefix-free" if pf else ""))



def check(case, stats: Stats) -> None:
    spec = case["spec"]
    _check_on(mk_converter(spec), case, stats)
    # the same laws on the same converter reached through every other history (grown string by string with all queries
    # issued after every mutation, merged from whole records, case-insensitive merges, by-standing input of derivations)
    for how, conv in history_variants(spec, lambda c: query_everything(c, case["uris"] + case["curies"] + case["prefixes"], ()), base=False):
        try:
            _check_on(conv, case, Stats())
        except Violation as v:
            v.message = f"[converter {how}] " + v.message
            raise


SUBS = [
    Sub(
        name="standardize",
        check=check,
        strategy=lambda tier: cases(tier),
        n={"quick": 1200, "thorough": 3000},
        required_classes=("nt:prefix-synonym", "nt:curie-synonym", "nt:uri-synonym", "nt:uri-synonym-prefix-free", "nt:case-variant-unknown"),
    )
]
