"""C10 — deriving a new converter never alters the converters it was derived from (stateful)."""

from __future__ import annotations

import copy

from hypothesis import strategies as st
from hypothesis.stateful import RuleBasedStateMachine, initialize, rule

from pbt import strategies as S
from pbt.common import Stats, Sub, Violation, guarded
from pbt.model import norm_records, prefixes_of, uri_prefixes_of
from pbt.sut import curies, deep_observation, dump_records, mk_converter, mk_converter_via, mk_record

PROPERTY_ID = "C10"
RULE = (
    "Generated: Hypothesis rule-based state machine over a pool of converters. The pool starts with 2-3 strict converters "
    "that overlap (shared CURIE prefixes with different URI prefixes, shared URI prefixes under different names, synonyms); "
    "each converter gets a deep observation when it enters the pool (record dumps, get_prefixes / get_uri_prefixes with "
    "and without synonyms, bimap, reverse_bimap, all five lookup structures, answers of expand / expand_all / "
    "standardize_curie / compress / standardize_uri on probes). Steps: chain (both case modes), get_subconverter, "
    "remap_curie_prefixes, remap_uri_prefixes, rewire, discover(converter=...) with arguments aimed at effective "
    "operations (one remapping in four is empty or has only unknown keys, i.e. has nothing to do), and add_prefix / add_record(merge=True) on a derived converter aimed at records it inherited. After every "
    "derivation each input (also when the derivation raises) and after every mutation each direct input of the mutated "
    "converter must equal its snapshot. One evaluation = one executed step. Non-trivial = a history in which a derivation "
    "changed something relative to its input (merge in chain, applied remapping / rewiring, proper subset) or a follow-up "
    "merge hit an inherited record; distinct by hash of (initial specs, operation list)."
)
ASSUMPTIONS = [
    "oracle: invariant over the history - observation(input) == snapshot(input); no model of the derivations themselves (C09, C11, C12)",
    "only inputs of a derivation, and direct inputs of a mutated derived converter, are required to be unchanged (what the statement says)",
]


@st.composite
def initial_pool(draw, tier="quick"):
    d = draw(S.delimiters())
    base = draw(S.record_sets(delimiter=d, min_records=1, max_records=4, max_syn=3, patterns=True))
    specs = [{"delimiter": d, "records": base}]
    taken_p = set(S.all_prefixes(base))
    taken_u = set(S.all_uri_prefixes(base))
    for k in range(draw(st.integers(1, 2))):
        recs = []
        used_p, used_u = set(), set()
        for r in base:
            mode = draw(st.integers(0, 4))
            if mode == 0:
                continue
            p, u = r["prefix"], r["uri_prefix"]
            ps, us = [], []
            if mode == 1:  # same prefix, new URI prefix, old URI as synonym (classic chain merge)
                u, us = f"{r['uri_prefix']}v{k}/", [r["uri_prefix"]]
            elif mode == 2:  # same URI prefix under another name
                p, ps = f"n{k}{r['prefix']}".replace(d, ""), list(r["prefix_synonyms"][:1])
            elif mode == 3:  # overlap only via a synonym / only up to case
                p = (r["prefix_synonyms"][0] if r["prefix_synonyms"] else r["prefix"].swapcase())
                u = f"{r['uri_prefix']}w{k}/"
            if p in used_p or u in used_u or any(x in used_p for x in ps) or any(x in used_u for x in us):
                continue
            ps = [x for x in ps if x != p]
            us = [x for x in us if x != u]
            used_p |= {p, *ps}
            used_u |= {u, *us}
            recs.append({"prefix": p, "uri_prefix": u, "prefix_synonyms": ps, "uri_prefix_synonyms": us, "pattern": None})
        if draw(st.booleans()):
            p, u = f"own{k}", f"http://own{k}/"
            recs.append({"prefix": p, "uri_prefix": u, "prefix_synonyms": [], "uri_prefix_synonyms": [], "pattern": None})
        specs.append({"delimiter": draw(st.sampled_from([d, ":"])), "records": recs})
    return specs


def _probes(records, d):
    cur = [p + d + "1" for p in S.all_prefixes(records)] + ["zz" + d + "1", ""]
    uri = S.boundary_uri_probes(records, idents=("1",))[:40] + ["zz", ""]
    return cur, uri


class Pool:
    def __init__(self, specs, stats: Stats):
        self.specs = copy.deepcopy(specs)
        self.stats = stats
        self.items: list[dict] = []
        self.ops: list[dict] = []
        self.flags: set[str] = set()
        for k, s in enumerate(specs):
            # the initial converters come into being in different ways too (records with unset / explicit synonym lists,
            # grown by merges, chained): only the first is always built at once
            mode = ["at-once", "incremental", "split-merge", "chain"][(k + len(s["records"])) % 4] if k else "at-once"
            self._add(mk_converter_via(s, mode), parents=[], inherited=set())

    def _add(self, conv, parents, inherited):
        recs = dump_records(conv)
        cur, uri = _probes(recs, conv.delimiter)
        self.items.append({"conv": conv, "probes": (cur, uri), "snap": deep_observation(conv, cur, uri), "parents": parents, "inherited": inherited})

    def case(self):
        return {"init": self.specs, "ops": copy.deepcopy(self.ops)}

    def fail(self, msg):
        raise Violation(f"after step {len(self.ops)} {self.ops[-1] if self.ops else ''}: {msg}", self.case())

    def _verify(self, idxs, why):
        for i in idxs:
            it = self.items[i]
            now = deep_observation(it["conv"], *it["probes"])
            if now != it["snap"]:
                diff = [k for k in now if now[k] != it["snap"][k]]
                detail = {k: (it["snap"][k], now[k]) for k in diff[:2]}
                self.fail(f"converter #{i} changed ({why}); differing views: {diff}; e.g. {str(detail)[:600]}")

    def apply(self, op):
        self.ops.append(copy.deepcopy(op))
        guarded(lambda case, st_: self._apply(op), self.case(), self.stats)

    def _apply(self, op):
        self.stats.ev()
        kind = op["op"]
        self.stats.cls("op:" + kind)
        n = len(self.items)
        if kind == "mutate":
            t = op["target"] % n
            it = self.items[t]
            if not it["parents"]:
                self.stats.cls("mutate-skipped-not-derived")
                return
            c, rec = it["conv"], op["record"]
            hits_inherited = bool((set(prefixes_of(rec)) | set(uri_prefixes_of(rec))) & it["inherited"])
            try:
                if op["how"] == "add_prefix":
                    c.add_prefix(rec["prefix"], rec["uri_prefix"], prefix_synonyms=rec["prefix_synonyms"], uri_prefix_synonyms=rec["uri_prefix_synonyms"], merge=True, case_sensitive=op["case_sensitive"])
                else:
                    c.add_record(mk_record(rec), merge=True, case_sensitive=op["case_sensitive"])
                ok = True
            except ValueError:
                ok = False
            self._verify(it["parents"], f"after {op['how']}(merge=True) on derived converter #{t}")
            if ok and hits_inherited:
                self.flags.add("merge-into-inherited")
            # the mutation of the derived converter itself is intended: refresh its snapshot
            cur, uri = _probes(dump_records(c), c.delimiter)
            it["probes"] = (cur, uri)
            it["snap"] = deep_observation(c, cur, uri)
            return
        inputs = [i % n for i in op["inputs"]]
        convs = [self.items[i]["conv"] for i in inputs]
        before = [norm_records(dump_records(c)) for c in convs]
        derived = None
        try:
            if kind == "chain":
                derived = curies.chain(convs, case_sensitive=op["case_sensitive"])
            elif kind == "sub":
                derived = convs[0].get_subconverter(iter(op["prefixes"]) if op.get("as_iterator") else op["prefixes"])
            elif kind == "remap_curie":
                derived = curies.remap_curie_prefixes(convs[0], dict(op["mapping"]))
            elif kind == "remap_uri":
                derived = curies.remap_uri_prefixes(convs[0], dict(op["mapping"]))
            elif kind == "rewire":
                derived = curies.rewire(convs[0], dict(op["mapping"]))
            elif kind == "discover":
                derived = curies.discover(op["uris"], converter=convs[0])
            else:
                raise AssertionError(kind)
        except (ValueError, NotImplementedError) as e:
            self.stats.cls("derivation-raised:" + type(e).__name__)
        self._verify(sorted(set(inputs)), f"it was an input of {kind}")
        if derived is not None:
            if any(derived is c for c in convs):
                self.fail(f"{kind} returned one of its inputs instead of a new converter")
            drecs = norm_records(dump_records(derived))
            effective = False
            if kind == "chain":
                effective = len(drecs) < sum(len(b) for b in before) or (len(convs) == 1 and False)
            elif kind in ("remap_curie", "remap_uri", "rewire"):
                effective = drecs != before[0]
                if not effective:
                    self.stats.cls("ineffective:" + kind)
            elif kind == "sub":
                effective = 0 < len(drecs) < len(before[0])
            if effective:
                self.flags.add("effective-derivation")
                self.stats.cls("effective:" + kind)
            if kind != "discover":
                inherited = {x for c in convs for r in dump_records(c) for x in prefixes_of(r) + uri_prefixes_of(r)}
                self._add(derived, parents=sorted(set(inputs)), inherited=inherited)

    def finish(self):
        self.stats.extra["histories"] = self.stats.extra.get("histories", 0) + 1
        klass = None
        if "effective-derivation" in self.flags and "merge-into-inherited" in self.flags:
            klass = "effective-derivation+merge-into-inherited"
        elif "merge-into-inherited" in self.flags:
            klass = "merge-into-inherited"
        elif "effective-derivation" in self.flags:
            klass = "effective-derivation"
        if klass:
            self.stats.nontrivial(self.case(), klass)


@st.composite
def ops(draw, pool: Pool):
    n = len(pool.items)
    kind = draw(st.sampled_from(["chain", "chain", "sub", "remap_curie", "remap_uri", "rewire", "discover", "mutate", "mutate", "mutate"]))
    derived_idx = [i for i, it in enumerate(pool.items) if it["parents"]]
    if kind == "mutate" and not derived_idx:
        kind = "chain"
    if kind == "mutate":
        t = draw(st.sampled_from(derived_idx))
        recs = dump_records(pool.items[t]["conv"])
        rec = {"prefix": f"m{len(pool.ops)}", "uri_prefix": f"http://m{len(pool.ops)}/", "prefix_synonyms": [], "uri_prefix_synonyms": [], "pattern": None}
        if recs:
            r = draw(st.sampled_from(recs))
            where = draw(st.sampled_from(["p", "u", "ps", "fresh", "pcase"]))
            if where == "p":
                rec["prefix"] = draw(st.sampled_from(prefixes_of(r)))
            elif where == "u":
                rec["uri_prefix"] = draw(st.sampled_from(uri_prefixes_of(r)))
            elif where == "ps":
                rec["prefix_synonyms"] = [draw(st.sampled_from(prefixes_of(r)))]
            elif where == "pcase":
                rec["prefix"] = r["prefix"].swapcase()
        rec["prefix_synonyms"] = [x for x in rec["prefix_synonyms"] if x != rec["prefix"]]
        return {"op": "mutate", "target": t, "record": rec, "how": draw(st.sampled_from(["add_prefix", "add_record"])), "case_sensitive": draw(st.booleans())}
    i = draw(st.integers(0, n - 1))
    recs = dump_records(pool.items[i]["conv"])
    ps = S.all_prefixes(recs)
    us = S.all_uri_prefixes(recs)
    if kind == "chain":
        k = draw(st.integers(1, min(3, n)))
        inputs = [i] + [draw(st.integers(0, n - 1)) for _ in range(k - 1)]
        return {"op": "chain", "inputs": inputs, "case_sensitive": draw(st.booleans())}
    if kind == "sub":
        sel = draw(st.lists(st.sampled_from(ps), max_size=3)) if ps else []
        return {"op": "sub", "inputs": [i], "prefixes": sel + draw(st.lists(st.sampled_from(["zz", ""]), max_size=1)), "as_iterator": draw(st.booleans())}
    if kind in ("remap_curie", "remap_uri", "rewire") and draw(st.integers(0, 3)) == 0:
        # a derivation that has nothing to do (empty mapping / only unknown keys) must still hand out an independent converter
        mapping = draw(st.sampled_from([[], [["zz-unknown", "zz-other"]], [["zz-unknown", "http://zz-other/"], ["yy-unknown", "http://yy-other/"]]]))
        return {"op": kind, "inputs": [i], "mapping": mapping}
    if kind == "remap_curie":
        keys = draw(st.lists(st.sampled_from(ps), unique=True, min_size=1, max_size=3)) if ps else ["zz"]
        targets = ps + [f"new{j}" for j in range(4)]
        mapping = [[k, draw(st.sampled_from(targets))] for k in keys]
        return {"op": "remap_curie", "inputs": [i], "mapping": mapping}
    if kind == "remap_uri":
        keys = draw(st.lists(st.sampled_from(us), unique=True, min_size=1, max_size=3)) if us else ["zz"]
        targets = us + [f"http://new{j}/" for j in range(4)]
        mapping = [[k, draw(st.sampled_from(targets))] for k in keys]
        return {"op": "remap_uri", "inputs": [i], "mapping": mapping}
    if kind == "rewire":
        keys = draw(st.lists(st.sampled_from(ps), unique=True, min_size=1, max_size=3)) if ps else ["zz"]
        targets = us + [f"http://rw{j}/" for j in range(4)]
        mapping = [[k, draw(st.sampled_from(targets))] for k in keys]
        return {"op": "rewire", "inputs": [i], "mapping": mapping}
    uris = [u + "1" for u in us[:3]] + ["http://disc/a/1", "http://disc/a/2", "http://disc/b#x"]
    return {"op": "discover", "inputs": [i], "uris": uris}


def make_machine(tier, stats: Stats):
    class Derivations(RuleBasedStateMachine):
        def __init__(self):
            super().__init__()
            self.pool = None

        @initialize(specs=initial_pool(tier))
        def init(self, specs):
            self.pool = Pool(specs, stats)

        @rule(data=st.data())
        def step(self, data):
            self.pool.apply(data.draw(ops(self.pool)))

        def teardown(self):
            if self.pool is not None:
                self.pool.finish()

    return Derivations


def check(case, stats: Stats) -> None:
    pool = Pool(case["init"], stats)
    for op in case["ops"]:
        pool.apply(op)
    pool.finish()


SUBS = [
    Sub(
        name="aliasing",
        kind="machine",
        check=check,
        machine=make_machine,
        n={"quick": 1000, "thorough": 2500},
        steps={"quick": 8, "thorough": 20},
        required_classes=("ineffective:remap_curie", "ineffective:remap_uri", "ineffective:rewire", "effective:chain", "effective:remap_curie", "effective:remap_uri", "effective:rewire", "effective:sub", "nt:effective-derivation+merge-into-inherited"),
    )
]
