"""C08 — strict, passthrough and default modes differ only in how failure is reported."""

from __future__ import annotations

import warnings

from hypothesis import strategies as st

from pbt import strategies as S
from pbt.common import Stats, Sub, Violation
from pbt.model import Model
from pbt.sut import history_variants, mk_incremental_queried, mk_split_merge, query_everything, curies, mk_converter

PROPERTY_ID = "C08"
RULE = (
    "Generated: strict converters (any delimiter, empty prefix, synonyms) x the 14 listed functions x the applicable "
    "subset of {strict} x {passthrough} x inputs (known / unknown CURIEs and URIs, '', delimiter-free strings, the bare "
    "delimiter, arbitrary Unicode; arbitrary (prefix, identifier) pairs for the pair functions). One evaluation = one "
    "(converter, function, input) triple on which all mode combinations are related to the default call: default never "
    "raises; passthrough returns the default value or the input unchanged; strict (with or without passthrough) returns the default value or raises a "
    "ConversionError / StandardizationError / NoCURIEDelimiterError instance; nothing else escapes. "
    "Every case is checked on the same converter reached through seven histories (built at once; grown string by string with all queries issued after every mutation; split into whole records and merged; grown by case-insensitive merges; every record re-merged into itself case-insensitively; after calls that must be rejected; as by-standing input of every derivation whose results were then mutated). "
    "Non-trivial = the default result is None (failure path); distinct by hash of (records, delimiter, function, input)."
)
ASSUMPTIONS = [
    "metamorphic oracle between modes of the same function on the same input; values themselves are C01/C02's business",
    "strict=True together with passthrough=True behaves as strict: every docstring defines passthrough as 'If true, strict "
    "is false, and ... can't be ..., return the input', i.e. passthrough only applies to non-strict calls",
    "for expand_pair / expand_reference 'input unchanged' means the formatted CURIE prefix+delimiter+identifier, as documented",
]

STR_FUNCS_PT = [
    "compress",
    "expand",
    "compress_or_standardize",
    "expand_or_standardize",
    "standardize_prefix",
    "standardize_curie",
    "standardize_uri",
]
STR_FUNCS_NOPT = ["expand_all", "parse", "parse_uri", "parse_curie"]
PAIR_FUNCS_PT = ["expand_pair", "expand_reference"]
PAIR_FUNCS_NOPT = ["expand_pair_all"]


def allowed_errors():
    return (curies.api.ConversionError, curies.api.StandardizationError, curies.api.NoCURIEDelimiterError)


def _norm(v):
    """Make results comparable: tuples/lists to lists, legacy (None, None) to None."""
    if isinstance(v, tuple) and len(v) == 2 and v[0] is None and v[1] is None:
        return None
    if isinstance(v, (tuple, list)):
        return [x for x in v]
    return v


def _invoke(c, fname, x, *, strict=None, passthrough=None):
    kw = {}
    if strict is not None:
        kw["strict"] = strict
    if passthrough is not None:
        kw["passthrough"] = passthrough
    fn = getattr(c, fname)
    with warnings.catch_warnings():
        warnings.simplefilter("ignore")
        if fname == "parse":
            kw.setdefault("strict", False)
            return fn(x, **kw)
        if fname == "parse_uri":
            return fn(x, return_none=True, **kw)
        if fname == "expand_reference":
            return fn(curies.ReferenceTuple(x[0], x[1]), **kw)
        if fname in ("expand_pair", "expand_pair_all"):
            return fn(x[0], x[1], **kw)
        return fn(x, **kw)


def _try(c, fname, x, **kw):
    try:
        return ("ok", _norm(_invoke(c, fname, x, **kw)))
    except Exception as e:  # noqa: BLE001
        return ("exc", e)


@st.composite
def cases(draw, tier="quick"):
    big = tier == "thorough"
    d = draw(S.delimiters())
    # C08 quantifies over ALL strict converters, so CURIE prefixes may contain the delimiter here (the mode relation does
    # not depend on it); e.g. prefix APOLLO_SV with delimiter _
    recs = draw(S.record_sets(delimiter=d, foreign_delimiters=True, max_records=6 if big else 4, max_syn=3, prefix_no_delimiter=draw(st.integers(0, 2)) > 0))
    strings = []
    strings += draw(S.curie_probes(recs, d, extra=6 if big else 4))
    strings += draw(S.uri_probes(recs, extra=4 if big else 2, delimiter=d))[-6:]
    ups = S.all_uri_prefixes(recs)
    ps = S.all_prefixes(recs)
    if ups:
        strings.append(draw(st.sampled_from(ups)) + "1")
    strings += ps[:3]
    if draw(st.integers(0, 2)) == 0:
        # text that means something to a formatting layer (percent-encoded URIs, printf / str.format / logging templates): with
        # and without the delimiter, known and unknown prefix - failure must still be reported the documented way
        tmpl = draw(st.sampled_from(["a%20b", "50%", "%s", "%d%d", "caf%C3%A9", "%(x)s", "{0}", "{x}", "{", "%", "\\N{x}", "$x"]))
        strings.append(tmpl)
        strings.append((draw(st.sampled_from(ps)) if ps else "zz") + d + tmpl)
        if ups:
            strings.append(draw(st.sampled_from(ups)) + tmpl)
    if draw(st.integers(0, 3)) == 0:
        # very long inputs (query strings, data URIs, pasted text): any depth- or size-limited helper shows here
        long_tail = draw(st.sampled_from(["x" * 1500, "9" * 3000, "a/" * 1200, "é" * 2048]))
        strings.append((draw(st.sampled_from(ups)) if ups else "") + long_tail)
        strings.append(long_tail)
        if ps:
            strings.append(draw(st.sampled_from(ps)) + d + long_tail)
    pairs = [[p, "1"] for p in ps[:3]]
    for _ in range(draw(st.integers(1, 5))):
        p = draw(st.one_of(st.sampled_from(ps), st.text(S.UNICODE, max_size=3), st.just(""))) if ps else draw(st.text(S.UNICODE, max_size=3))
        pairs.append([p, draw(S.identifiers(d))])
    # dedupe keeping order
    seen, ustr = set(), []
    for s in strings:
        if s not in seen:
            seen.add(s)
            ustr.append(s)
    return {"spec": {"delimiter": d, "records": recs}, "strings": ustr, "pairs": pairs}


def _check_one(c, d, fname, x, has_pt, unchanged, stats, unit):
    stats.ev()
    errs = allowed_errors()
    t0, r0 = _try(c, fname, x)
    if t0 == "exc":
        raise Violation(f"{fname}({x!r}) in default mode raised {type(r0).__name__}: {r0}")
    # explicit strict=False must be the default
    t, r = _try(c, fname, x, strict=False)
    if (t, r) != ("ok", r0):
        raise Violation(f"{fname}({x!r}, strict=False) = {t}:{r!r} differs from the default call {r0!r}")
    if fname == "parse_uri":
        with warnings.catch_warnings():
            warnings.simplefilter("ignore")
            try:
                legacy = _norm(c.parse_uri(x))
            except Exception as e:  # noqa: BLE001
                raise Violation(f"parse_uri({x!r}) (legacy return) raised {type(e).__name__}") from e
        if legacy != r0:
            raise Violation(f"parse_uri({x!r}) legacy form gives {legacy!r}, return_none form gives {r0!r}")
    # strict
    t, r = _try(c, fname, x, strict=True)
    if r0 is not None:
        if (t, r) != ("ok", r0):
            raise Violation(f"{fname}({x!r}, strict=True) = {t}:{r!r} but the default call returns {r0!r}")
    else:
        if t == "ok":
            raise Violation(f"{fname}({x!r}, strict=True) returned {r!r} although the default call gives None")
        if not isinstance(r, errs):
            raise Violation(f"{fname}({x!r}, strict=True) raised {type(r).__name__}, not one of the library's conversion/standardisation errors")
    if has_pt:
        t, r = _try(c, fname, x, passthrough=True)
        want = r0 if r0 is not None else unchanged
        if (t, r) != ("ok", want):
            raise Violation(f"{fname}({x!r}, passthrough=True) = {t}:{r!r}, expected {want!r} (default gives {r0!r})")
        t, r = _try(c, fname, x, strict=False, passthrough=False)
        if (t, r) != ("ok", r0):
            raise Violation(f"{fname}({x!r}, strict=False, passthrough=False) = {t}:{r!r} differs from default {r0!r}")
        t, r = _try(c, fname, x, strict=True, passthrough=True)
        if r0 is not None:
            if (t, r) != ("ok", r0):
                raise Violation(f"{fname}({x!r}, strict=True, passthrough=True) = {t}:{r!r} but default returns {r0!r}")
        else:
            # every docstring says "passthrough: If true, *strict is false*, and ... can't be ..., return the input":
            # passthrough only applies to non-strict calls, so with both flags the call behaves as a strict one
            if t == "ok":
                raise Violation(f"{fname}({x!r}, strict=True, passthrough=True) returned {r!r} although the default call gives None (strict takes precedence)")
            if not isinstance(r, errs):
                raise Violation(f"{fname}({x!r}, strict=True, passthrough=True) raised {type(r).__name__}, not a library conversion/standardisation error")
    if r0 is None:
        stats.nontrivial(unit, "failure-path:" + fname)
    else:
        stats.cls("success-path")


def _check_on(c, case, stats: Stats) -> None:
    spec = case["spec"]
    recs, d = spec["records"], spec["delimiter"]
    stats.cls("converters")
    for x in case["strings"]:
        if d not in x:
            stats.cls("delimiter-free-input")
        if x == "":
            stats.cls("empty-input")
        for fname in STR_FUNCS_PT:
            _check_one(c, d, fname, x, True, x, stats, {"records": recs, "delimiter": d, "f": fname, "x": x})
        for fname in STR_FUNCS_NOPT:
            _check_one(c, d, fname, x, False, None, stats, {"records": recs, "delimiter": d, "f": fname, "x": x})
    for p, i in case["pairs"]:
        for fname in PAIR_FUNCS_PT:
            _check_one(c, d, fname, (p, i), True, p + d + i, stats, {"records": recs, "delimiter": d, "f": fname, "x": [p, i]})
        for fname in PAIR_FUNCS_NOPT:
            _check_one(c, d, fname, (p, i), False, None, stats, {"records": recs, "delimiter": d, "f": fname, "x": [p, i]})



def check(case, stats: Stats) -> None:
    spec = case["spec"]
    _check_on(mk_converter(spec), case, stats)
    # the same laws on the same converter reached through every other history (grown string by string with all queries
    # issued after every mutation, merged from whole records, case-insensitive merges, by-standing input of derivations)
    for how, conv in history_variants(spec, lambda c: query_everything(c, case["strings"], case["pairs"]), base=False):
        try:
            _check_on(conv, case, Stats())
        except Violation as v:
            v.message = f"[converter {how}] " + v.message
            raise


SUBS = [
    Sub(
        name="modes",
        check=check,
        strategy=lambda tier: cases(tier),
        n={"quick": 500, "thorough": 1500},
        required_classes=("delimiter-free-input", "empty-input", "success-path", "nt:failure-path:expand", "nt:failure-path:standardize_curie"),
    )
]

from pbt.fuzzstage import atheris_sub  # noqa: E402

SUBS.append(atheris_sub("C08", SUBS[0].check))
