"""C01 — URI compression always picks the longest registered URI prefix; order independent."""

from __future__ import annotations

from hypothesis import strategies as st

from pbt import strategies as S
from pbt.common import Stats, Sub, Violation
from pbt.model import Model, uri_prefixes_of
from pbt.sut import Converter, case_insensitive_build_is_equivalent, mk_incremental_queried, mk_record, mk_records, mk_after_rejected_calls, mk_bystander, mk_remerged, mk_sibling_same_list, mk_split_merge

PROPERTY_ID = "C01"
RULE = (
    "Generated: strict converters over a lattice of nested/overlapping/one-character-different URI prefixes "
    "(incl. the empty URI prefix, synonyms nested in other records' prefixes, any delimiter), each materialised "
    "five ways (given order, permuted, incrementally added in another permutation, incrementally merged synonym by "
    "synonym, and incrementally with every probe queried after every single mutation so that stale caches show; further: split "
    "into whole records and merged, case-insensitive merges, re-merged into itself, after calls that must be rejected, as "
    "by-standing input of every derivation, and through from_reverse_prefix_map / from_priority_prefix_map) and probed with boundary strings around every registered prefix plus random strings. "
    "One evaluation = one (converter, probe) pair compared with the naive longest-match model on all variants. "
    "Non-trivial = the probe is matched by >=2 registered URI prefixes of different records, or equals a registered "
    "prefix, or is one character short of one, or is matched only by a registered empty URI prefix; distinct by "
    "hash of (records, delimiter, probe)."
)
ASSUMPTIONS = [
    "oracle is pbt/model.py:Model.parse_uri (linear scan, max by length); it never touches the trie",
    "pytrie and pydantic are trusted only as far as the differential with the model exercises them",
]


@st.composite
def cases(draw, tier="quick"):
    big = tier == "thorough"
    d = draw(S.delimiters())
    recs = draw(
        S.record_sets(
            delimiter=d,
            # thorough: one case in six is a large converter (up to 25 records, 10 extra synonyms per side)
            max_records=(25 if draw(st.integers(0, 5)) == 0 else 9) if big else 6,
            max_syn=(10 if draw(st.integers(0, 5)) == 0 else 6) if big else 4,
            prefix_no_delimiter=draw(st.booleans()),
            foreign_delimiters=True,
        )
    )
    n = len(recs)
    perm1 = list(draw(st.permutations(range(n)))) if n > 1 else list(range(n))
    perm2 = list(draw(st.permutations(range(n)))) if n > 1 else list(range(n))
    probes = draw(S.uri_probes(recs, extra=8 if big else 5, delimiter=d))
    return {"spec": {"delimiter": d, "records": recs}, "perm1": perm1, "perm2": perm2, "probes": probes}


def _variants(case):
    spec = case["spec"]
    recs, d = spec["records"], spec["delimiter"]
    out = {"given": Converter(mk_records(recs), delimiter=d)}
    out["permuted"] = Converter(mk_records([recs[i] for i in case["perm1"]]), delimiter=d)
    # `records` is typed Iterable[Record]: a one-shot generator / a tuple must denote the same converter as a list
    out["permuted-as-generator"] = Converter((x for x in mk_records([recs[i] for i in case["perm2"]])), delimiter=d)
    out["given-as-tuple"] = Converter(tuple(mk_records(recs)), delimiter=d)
    inc = Converter([], delimiter=d)
    for i in case["perm2"]:
        inc.add_record(mk_record(recs[i]))
    out["incremental"] = inc
    mrg = Converter([], delimiter=d)
    for i in case["perm2"]:
        r = recs[i]
        mrg.add_prefix(r["prefix"], r["uri_prefix"], prefix_synonyms=r["prefix_synonyms"])
        for syn in r["uri_prefix_synonyms"]:
            mrg.add_record(mk_record({"prefix": r["prefix"], "uri_prefix": syn}), merge=True)
    out["merged"] = mrg

    def queries(c):
        for u in case["probes"]:
            c.parse_uri(u, return_none=True)
            c.compress(u)
            c.is_uri(u)

    out["incremental-with-interleaved-queries"] = mk_incremental_queried(spec, case["perm1"], queries)
    out["split-and-merged"] = mk_split_merge(spec)
    out["incremental-every-synonym-merged-twice"] = mk_incremental_queried(spec, case["perm1"], lambda c: None, repeat=2)
    if case_insensitive_build_is_equivalent(spec):
        out["re-merged-into-itself-case-insensitively"] = mk_remerged(spec)
    out["after-calls-that-must-be-rejected"] = mk_after_rejected_calls(spec)
    if recs:
        out["constructed-from-a-list-shared-with-an-extended-sibling"] = mk_sibling_same_list(spec)
    out["by-standing input of chain / get_subconverter / remap_* / rewire / discover"] = mk_bystander(spec)
    if case_insensitive_build_is_equivalent(spec):
        # synonyms that are case variants of strings of their OWN record arrive through case-insensitive merges
        out["incremental-case-insensitive-merges"] = mk_incremental_queried(spec, case["perm2"], lambda c: None, case_sensitive=False)
    # the same URI-prefix -> canonical-prefix assignment supplied through loaders, in two entry orders (URI parsing only
    # depends on which record owns a URI prefix and on that record's canonical CURIE prefix)
    pairs = [(u, r["prefix"]) for r in recs for u in [r["uri_prefix"], *r["uri_prefix_synonyms"]]]
    if len({p for _, p in pairs}) == len(recs):
        shuffled = [pairs[i] for i in sorted(range(len(pairs)), key=lambda i: (case["perm1"].index(i % len(recs)) if recs else 0, -i))]
        out["from_reverse_prefix_map"] = Converter.from_reverse_prefix_map(dict(pairs), delimiter=d)
        out["from_reverse_prefix_map(longest first)"] = Converter.from_reverse_prefix_map(dict(sorted(pairs, key=lambda t: -len(t[0]))), delimiter=d)
        out["from_reverse_prefix_map(permuted)"] = Converter.from_reverse_prefix_map(dict(shuffled), delimiter=d)
        out["from_priority_prefix_map"] = Converter.from_priority_prefix_map({recs[i]["prefix"]: [recs[i]["uri_prefix"], *recs[i]["uri_prefix_synonyms"]] for i in case["perm2"]}, delimiter=d)
    return out


def check(case, stats: Stats) -> None:
    spec = case["spec"]
    recs, d = spec["records"], spec["delimiter"]
    model = Model(recs, d)
    variants = _variants(case)
    ups = model.all_uri_prefixes()
    stats.cls("converters")
    if "" in ups:
        stats.cls("empty-uri-prefix-registered")
    if any(a != b and b.startswith(a) and model.uri_owner(a) is not model.uri_owner(b) for a in ups for b in ups):
        stats.cls("nested-across-records")
    owner_of = {u: i for i, r in enumerate(recs) for u in uri_prefixes_of(r)}
    for u in case["probes"]:
        stats.ev()
        exp = model.parse_uri(u)
        exp_c = model.compress(u)
        for name, c in variants.items():
            got = c.parse_uri(u, return_none=True)
            got_t = None if got is None else (got[0], got[1])
            if got_t != exp:
                raise Violation(f"parse_uri({u!r}) on {name} converter = {got_t!r}, longest-match model says {exp!r}")
            gc = c.compress(u)
            if gc != exp_c:
                raise Violation(f"compress({u!r}) on {name} converter = {gc!r}, model says {exp_c!r}")
            gi = c.is_uri(u)
            if gi is not (exp is not None):
                raise Violation(f"is_uri({u!r}) on {name} converter = {gi!r}, model says {exp is not None}")
            if exp is None:
                # strict mode must refuse the same strings
                try:
                    c.parse_uri(u, strict=True, return_none=True)
                except ValueError:
                    pass
                else:
                    raise Violation(f"parse_uri({u!r}, strict=True) on {name} did not raise though no prefix matches")
        ms = model.uri_matches(u)
        owners = {owner_of[p] for p, _ in ms}
        klass = None
        if len(owners) >= 2:
            klass = "multi-match-different-records"
        elif u in ups:
            klass = "exact-prefix"
        elif any(p and u == p[:-1] for p in ups):
            klass = "one-char-short"
        elif ms and all(p == "" for p, _ in ms):
            klass = "empty-prefix-only-match"
        if not ms:
            stats.cls("no-match")
        if klass:
            stats.nontrivial({"records": recs, "delimiter": d, "probe": u}, klass)


SUBS = [
    Sub(
        name="longest_match",
        check=check,
        strategy=lambda tier: cases(tier),
        n={"quick": 1500, "thorough": 4000},
        required_classes=("nt:multi-match-different-records", "empty-uri-prefix-registered", "nt:one-char-short"),
    )
]

from pbt.fuzzstage import atheris_sub  # noqa: E402

SUBS.append(atheris_sub("C01", SUBS[0].check))
