"""C16 — bulk operations equal element-wise scalar calls and fail atomically."""

from __future__ import annotations

import csv
import io
import tempfile
from pathlib import Path

from hypothesis import strategies as st

from pbt import strategies as S
from pbt.common import Stats, Sub, Violation, scratch_dir
from pbt.sut import BUILD_MODES, call, mk_bare_record, mk_converter, mk_converter_via

PROPERTY_ID = "C16"
RULE = (
    "Generated: strict converters (any delimiter) and tables of string cells (1-4 columns, 0-8 rows, any column index; "
    "cells are known / unknown URIs and CURIEs, delimiter-free strings, '', and quoting-sensitive strings containing the "
    "separator, quotes, newlines; with or without header, whose cells are plain names or the same kinds of cells; tab, ',', '|' or ';' separator), all flag combinations (strict, "
    "passthrough, ambiguous) and target_column absent / new / existing. One evaluation = one bulk call compared cell by "
    "cell with the corresponding scalar method (differential): pandas - target column == scalar results with None->NA, "
    "all other columns, index and source column untouched, bulk raises the scalar's exception type when a scalar call "
    "raises; files - re-parsed with csv: chosen column == scalar results with None->'', other columns, header and row "
    "order preserved; if the call raises (it must when a scalar call raises; it may for an injected short or empty row) the "
    "bytes on disk are identical to before; a tolerated faulty row must leave all well-formed rows converted in order. "
    "Non-trivial = a table with >=1 non-convertible cell, or a quoting-sensitive cell, or a failing row not at position 0; "
    "distinct by hash of the case."
)
ASSUMPTIONS = [
    "oracle: the scalar Converter method with the same flags applied cell by cell (its own correctness is C01-C08's subject)",
    "input files are produced with csv.writer (newline='') so they are well-formed for the dialect; temp files live in a per-run directory",
]

_n = [0]
QUOTING = ['q"uote', "line\nbreak", "a\tb", "a,b", "a|b", "a;b", " ", '"', "'", "x\ny\nz", "cr\rhere", "crlf\r\nx"]
PD_FUNCS = ["pd_compress", "pd_expand", "pd_standardize_prefix", "pd_standardize_curie", "pd_standardize_uri"]
SCALAR = {
    "pd_compress": ("compress", "compress_or_standardize"),
    "pd_expand": ("expand", "expand_or_standardize"),
    "pd_standardize_prefix": ("standardize_prefix", None),
    "pd_standardize_curie": ("standardize_curie", None),
    "pd_standardize_uri": ("standardize_uri", None),
    "file_compress": ("compress", "compress_or_standardize"),
    "file_expand": ("expand", "expand_or_standardize"),
}


@st.composite
def cells(draw, recs, d, n):
    pool = S.boundary_uri_probes(recs, idents=("1",))[:12] + [p + d + "1" for p in S.all_prefixes(recs)] + S.all_prefixes(recs)[:3]
    pool += ["", "nodelim", "zz" + d + "1", "http://unknown/1"]
    out = []
    for _ in range(n):
        mode = draw(st.integers(0, 9))
        if mode <= 6:
            out.append(draw(st.sampled_from(pool)))
        elif mode == 7:
            out.append(draw(st.sampled_from(QUOTING)))
        elif mode == 8:
            out.append(draw(st.sampled_from(pool)) + draw(st.sampled_from(QUOTING)))
        else:
            out.append(draw(st.text(S.UNICODE, max_size=5)).replace("\r", "").replace("\x00", ""))
    return out


@st.composite
def table_cases(draw, tier="quick", kind="pd"):
    d = draw(S.delimiters())
    recs = draw(S.record_sets(delimiter=d, max_records=4, max_syn=3, unicode_arm=False))
    ncols = draw(st.integers(1, 4))
    nrows = draw(st.integers(0, 8))
    flat = draw(cells(recs, d, ncols * nrows))
    if recs and draw(st.integers(0, 3)) == 0:
        # a table whose cells are all convertible one way or the other (known URIs and known CURIEs mixed): the only kind of
        # table on which strict mode is expected to succeed
        good = [u + "1" for u in S.all_uri_prefixes(recs)] + [p + d + "1" for p in S.all_prefixes(recs)]
        flat = [draw(st.sampled_from(good)) for _ in flat]
    rows = [flat[r * ncols:(r + 1) * ncols] for r in range(nrows)]
    if rows and draw(st.integers(0, 19 if tier == "quick" else 9)) == 0:
        # a long table around typical chunk sizes, built by cycling the drawn rows (no extra draws)
        target = draw(st.sampled_from([100, 101, 257] if tier == "quick" else [64, 100, 101, 128, 256, 257, 1000, 1001, 1024, 1025]))
        rows = [list(rows[k % len(rows)]) for k in range(target)]
        nrows = target
    case = {
        "spec": {"delimiter": d, "records": recs},
        "rows": rows,
        "ncols": ncols,
        "column": draw(st.integers(0, ncols - 1)),
        "strict": draw(st.sampled_from([False, False, True])),
        "passthrough": draw(st.booleans()),
        "ambiguous": draw(st.booleans()),
        "build": draw(st.sampled_from(BUILD_MODES)),
        # history: the same bulk operation already ran on the same table while the converter still lacked its last `late`
        # records (bulk callers extend converters on the fly); the answer must be that of the converter as it is NOW
        "late": min(draw(st.sampled_from([0, 0, 0, 1, 2])), len(recs)),
    }
    if kind == "pd":
        case["func"] = draw(st.sampled_from(PD_FUNCS))
        case["int_labels"] = draw(st.booleans())
        case["target"] = draw(st.sampled_from(["none", "none", "new", "existing"]))
        # the first column is over-represented as target: with integer labels it is the falsy label 0, with the
        # "empty-first" labelling the falsy label ""
        case["target_index"] = draw(st.sampled_from([0, 0] + list(range(ncols))))
        case["labels"] = draw(st.sampled_from(["int", "int", "str", "empty-first", "int-shifted", "int-permuted"]))
        case["index"] = draw(st.sampled_from(["default", "default", "reversed", "strings", "offset"]))
    else:
        case["func"] = draw(st.sampled_from(["file_compress", "file_expand"]))
        case["header"] = draw(st.booleans())
        # header cells are ordinary CSV cells too: plain names, quoting-sensitive text (separator, quotes, line breaks inside
        # a quoted cell), empty, repeated, or text that LOOKS convertible (a header is never converted)
        if case["header"] and draw(st.integers(0, 2)) > 0:
            case["header_cells"] = draw(cells(recs, d, ncols))
        case["sep"] = draw(st.sampled_from([None, None, ",", "|", ";"]))
        case["as_str_path"] = draw(st.booleans())
        # fault injection for the atomicity clause: a short or empty row at a generated position
        fault = draw(st.sampled_from(["none", "none", "short-row", "empty-row"]))
        case["fault"] = fault
        case["fault_pos"] = draw(st.integers(0, nrows)) if fault != "none" else 0
    return case


def _scalar(conv, case):
    plain, amb = SCALAR[case["func"]]
    name = amb if (case.get("ambiguous") and amb) else plain
    fn = getattr(conv, name)
    return name, (lambda x: fn(x, strict=case["strict"], passthrough=case["passthrough"]))


def _classify(case, results, stats, failing_pos=None):
    klass = None
    cells_ = [c for row in case["rows"] for c in row]
    if failing_pos is not None and failing_pos > 0:
        klass = "failing-row-not-first"
    elif any(t == "ok" and v is None for t, v in results):
        klass = "non-convertible-cell"
    elif any(any(ch in c for ch in '"\n\r\t,|;') for c in cells_):
        klass = "quoting-sensitive-cell"
    if klass:
        stats.nontrivial({k: v for k, v in case.items()}, klass)
    else:
        stats.cls("all-convertible")


def _extend(conv, records):
    for r in records:
        conv.add_record(mk_bare_record(r["prefix"], r["uri_prefix"], r.get("pattern")))
        for syn in r["prefix_synonyms"]:
            conv.add_prefix(syn, r["uri_prefix"], merge=True)
        for syn in r["uri_prefix_synonyms"]:
            conv.add_record(mk_bare_record(r["prefix"], syn), merge=True)


def _converter_with_history(case, warm_up, stats):
    """The converter of the case; with late > 0 it is first built without its last records, `warm_up(converter)` runs the
    bulk operation once (result and exceptions ignored), and only then the remaining records are registered."""
    late = case.get("late", 0)
    spec = case["spec"]
    if not late:
        return mk_converter_via(spec, case.get("build", "at-once"))
    recs = spec["records"]
    conv = mk_converter_via({"delimiter": spec["delimiter"], "records": recs[: len(recs) - late]}, case.get("build", "at-once"))
    try:
        warm_up(conv)
    except Exception:  # noqa: BLE001
        pass
    _extend(conv, recs[len(recs) - late:])
    stats.cls("bulk-call-before-converter-was-completed")
    return conv


def check_pd(case, stats: Stats) -> None:
    import pandas as pd

    stats.ev()
    conv = None
    ncols = case["ncols"]
    scheme = case.get("labels") or ("int" if case["int_labels"] else "str")
    # integer labels need not coincide with positions (a frame after drop(columns=...), a re-ordered frame)
    labels = {"int": list(range(ncols)), "int-shifted": [10 * (i + 1) for i in range(ncols)], "int-permuted": [(i + 1) % ncols for i in range(ncols)],
              "empty-first": [""] + [f"c{i}" for i in range(1, ncols)]}.get(scheme, [f"c{i}" for i in range(ncols)])
    nrows = len(case["rows"])
    idx = {"default": None, "reversed": list(range(nrows - 1, -1, -1)), "strings": [f"r{k}" for k in range(nrows)], "offset": [10 + 3 * k for k in range(nrows)]}[case.get("index", "default")]
    df = pd.DataFrame([list(r) for r in case["rows"]], columns=labels, index=idx)
    before = df.copy(deep=True)
    col = labels[case["column"]]
    if case["target"] == "none":
        tgt = None
    elif case["target"] == "new":
        tgt = 1000 + ncols if scheme.startswith("int") else "target"
    else:
        tgt = labels[case["target_index"]]
    kw = dict(strict=case["strict"], passthrough=case["passthrough"])
    if case["func"] in ("pd_compress", "pd_expand"):
        kw["ambiguous"] = case["ambiguous"]
        run = lambda c, frame: getattr(c, case["func"])(frame, col, target_column=tgt, **kw)  # noqa: E731
    else:
        run = lambda c, frame: getattr(c, case["func"])(frame, column=col, target_column=tgt, **kw)  # noqa: E731
    conv = _converter_with_history(case, lambda c: run(c, before.copy(deep=True)), stats)
    name, scalar = _scalar(conv, case)
    results = [call(scalar, r[case["column"]]) for r in case["rows"]]
    t, v = call(lambda: run(conv, df))
    first_exc = next((r for r in results if r[0] == "exc"), None)
    if first_exc is not None:
        stats.cls("pd:scalar-raises")
        if t != "exc":
            raise Violation(f"{case['func']}: scalar {name} raises {type(first_exc[1]).__name__} on a cell but the bulk call returned")
        if not isinstance(v, type(first_exc[1])) and not isinstance(first_exc[1], type(v)):
            raise Violation(f"{case['func']}: bulk raised {type(v).__name__}, the scalar call raises {type(first_exc[1]).__name__}")
        return
    if t == "exc":
        raise Violation(f"{case['func']} raised {type(v).__name__}: {v} although every scalar {name} call returns")
    out_col = col if tgt is None else tgt
    got = df[out_col].tolist()
    if len(got) != len(results):
        raise Violation(f"{case['func']}: {len(results)} rows in, {len(got)} rows out")
    for k, ((_, exp), g) in enumerate(zip(results, got)):
        if exp is None:
            if not pd.isna(g):
                raise Violation(f"{case['func']}: row {k}: scalar {name} gives None, data frame holds {g!r} (expected NA)")
        elif g != exp:
            raise Violation(f"{case['func']}: row {k}: scalar {name}({case['rows'][k][case['column']]!r}) = {exp!r}, data frame holds {g!r}")
    for lab in labels:
        if lab == out_col:
            continue
        if df[lab].tolist() != before[lab].tolist():
            raise Violation(f"{case['func']}: column {lab!r} changed although it is not the target")
    if list(df.index) != list(before.index):
        raise Violation(f"{case['func']}: the index changed")
    expected_cols = labels + ([tgt] if tgt is not None and tgt not in labels else [])
    if list(df.columns) != expected_cols:
        raise Violation(f"{case['func']}: columns {list(df.columns)!r}, expected {expected_cols!r}")
    stats.cls("pd:" + case["func"])
    _classify(case, results, stats)


def _header_cells(case):
    return list(case.get("header_cells") or [f"h{i}" for i in range(case["ncols"])])


def _write_table(path: Path, case, rows_with_fault):
    sep = case["sep"] or "\t"
    buf = io.StringIO()
    w = csv.writer(buf, delimiter=sep)
    if case["header"]:
        w.writerow(_header_cells(case))
    for r in rows_with_fault:
        w.writerow(r)
    path.write_bytes(buf.getvalue().encode("utf-8"))


def check_file(case, stats: Stats) -> None:
    stats.ev()
    sep = case["sep"] or "\t"
    rows = [list(r) for r in case["rows"]]
    col = case["column"]
    faulty = list(rows)
    fault_row = None
    if case["fault"] == "short-row" and col > 0:
        fault_row = min(case["fault_pos"], len(faulty))
        faulty.insert(fault_row, [f"s{i}" for i in range(col)])  # too short for the chosen column
    elif case["fault"] == "empty-row":
        fault_row = min(case["fault_pos"], len(faulty))
        faulty.insert(fault_row, [])
    _n[0] += 1
    path = scratch_dir() / f"t{_n[0]}.tsv"
    _write_table(path, case, faulty)
    before = path.read_bytes()
    kw = dict(sep=case["sep"], header=case["header"], strict=case["strict"], passthrough=case["passthrough"], ambiguous=case["ambiguous"])
    arg = str(path) if case["as_str_path"] else path

    def warm_up(c):
        try:
            getattr(c, case["func"])(arg, col, **kw)
        finally:
            path.write_bytes(before)

    conv = _converter_with_history(case, warm_up, stats)
    name, scalar = _scalar(conv, case)
    results = [call(scalar, r[col]) for r in rows]
    first_fail = next((k for k, r in enumerate(results) if r[0] == "exc"), None)
    try:
        t, v = call(lambda: getattr(conv, case["func"])(arg, col, **kw))
        after = path.read_bytes()
    finally:
        path.unlink(missing_ok=True)
    # A cell on which the scalar method raises must make the bulk call raise too (element-wise equality). A structurally
    # faulty row (too short / empty) MAY make it raise - the statement only says what must hold IF it raises: the bytes on
    # disk are untouched. An implementation that tolerates such rows is checked on the remaining rows instead.
    if t == "exc" or first_fail is not None:
        stats.cls("file:raises")
        if t != "exc":
            raise Violation(f"{case['func']}: scalar {name} raises on the cell of row {first_fail} but the file operation returned")
        if after != before:
            raise Violation(f"{case['func']} raised {type(v).__name__} and left a modified file on disk (not atomic)")
        if fault_row is None and first_fail is None:
            raise Violation(f"{case['func']} raised {type(v).__name__}: {v} although every scalar {name} call returns")
        pos = fault_row if fault_row is not None else first_fail
        if first_fail is not None and fault_row is not None:
            pos = min(first_fail + (1 if fault_row <= first_fail else 0), fault_row)
        _classify(case, results, stats, failing_pos=pos)
        return
    if fault_row is not None:
        # tolerated structural fault: every well-formed row must still be converted, in order
        stats.cls("file:fault-row-tolerated")
        parsed = list(csv.reader(io.StringIO(after.decode("utf-8"), newline=""), delimiter=sep))
        want_rows = ([_header_cells(case)] if case["header"] else [])
        for r, (_, val) in zip(rows, results):
            rr = list(r)
            rr[col] = val if val is not None else ""
            want_rows.append(rr)
        it = iter(parsed)
        if not all(any(w == g for g in it) for w in want_rows):
            raise Violation(f"{case['func']} tolerated a {case['fault']} but the well-formed rows are not all converted in order: file holds {parsed!r}, expected (as a subsequence) {want_rows!r}")
        return
    parsed = list(csv.reader(io.StringIO(after.decode("utf-8"), newline=""), delimiter=sep))
    exp_rows = []
    if case["header"]:
        exp_rows.append(_header_cells(case))
    for r, (_, val) in zip(rows, results):
        rr = list(r)
        rr[col] = val if val is not None else ""
        exp_rows.append(rr)
    if parsed != exp_rows:
        raise Violation(f"{case['func']}: file holds {parsed!r}, element-wise scalar {name} gives {exp_rows!r}")
    stats.cls("file:" + case["func"])
    if case["header"] and any(any(ch in c for ch in '"\n\r\t,|;') for c in _header_cells(case)):
        stats.cls("file:quoting-sensitive-header")
    _classify(case, results, stats)


SUBS = [
    Sub(name="pandas", check=check_pd, strategy=lambda tier: table_cases(tier, "pd"), n={"quick": 700, "thorough": 2500},
        required_classes=("bulk-call-before-converter-was-completed", "pd:pd_compress", "pd:pd_expand", "pd:pd_standardize_prefix", "pd:pd_standardize_curie", "pd:pd_standardize_uri", "pd:scalar-raises", "nt:non-convertible-cell")),
    Sub(name="files", check=check_file, strategy=lambda tier: table_cases(tier, "file"), n={"quick": 900, "thorough": 3000},
        required_classes=("bulk-call-before-converter-was-completed", "file:file_compress", "file:file_expand", "file:quoting-sensitive-header", "file:raises", "nt:failing-row-not-first", "nt:quoting-sensitive-cell")),
]
