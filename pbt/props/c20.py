"""C20 — W3C validators accept exactly the documented grammar (bounded exhaustive + random)."""

from __future__ import annotations

import itertools
import multiprocessing as mp
import os

from hypothesis import strategies as st

from pbt.common import Stats, Sub, Violation

PROPERTY_ID = "C20"
SYMBOLS = ["a", "1", "_", ".", "-", ":", "/", "#", " ", "\t", "\n", "[", "]", "é"]
LEN = {"quick": 6, "thorough": 7}
RULE = (
    "Exhaustive: every string up to length L (6 quick = 8,108,731 strings; 7 thorough = 113,522,235) over one "
    "representative per character class {letter a, digit 1, '_', '.', '-', ':', '/', '#', space, tab, newline, '[', ']', "
    "non-ASCII letter é}, sharded over 16 processes; plus random strings up to length 40 over the same classes, further "
    "class members (Z, 0, \\r, \\x0b, \\x0c, NBSP, U+2028, ideographic space) and arbitrary Unicode; plus a complete sweep of "
    "all 1,112,064 Unicode scalar values in seven positions (alone, first / later prefix character, inside a CURIE prefix, "
    "as prefix, as and inside the reference) so that no single code point is misclassified. One evaluation = one "
    "string on which is_w3c_prefix and is_w3c_curie are compared with a hand-written predicate transcribing the statement. "
    "Non-trivial = a string containing whitespace, a bracket, '//', a trailing newline or a non-ASCII letter, or on which "
    "the two validators disagree; for the exhaustive part the count is the exact number of such strings (each enumerated "
    "string is distinct by construction), for the random part distinct by hash."
)
ASSUMPTIONS = [
    "oracle: pbt/props/c20.py:oracle_prefix / oracle_curie, a direct transcription of the statement using str methods only (no regex)",
    "the 14 representatives stand for their character classes; the random arm probes other members of each class",
]
LEVEL = "exploration"
SHARDS = {"quick": 1, "thorough": 1}  # the enumeration does its own 16-way sharding

_ASCII_LETTERS = set("abcdefghijklmnopqrstuvwxyzABCDEFGHIJKLMNOPQRSTUVWXYZ")
_DIGITS = set("0123456789")


def oracle_prefix(s: str) -> bool:
    if not s:
        return False
    if s[0] not in _ASCII_LETTERS and s[0] != "_":
        return False
    return all(ch in _ASCII_LETTERS or ch in _DIGITS or ch in "._-" for ch in s[1:])


def _reference(r: str) -> bool:
    return not any(ch.isspace() for ch in r) and not r.startswith("//")


def oracle_curie(s: str) -> bool:
    if not s.strip():
        return False
    if any(ch.isspace() for ch in s) or "[" in s or "]" in s:
        return False
    if ":" in s:
        p, _, r = s.partition(":")
        return (p == "" or oracle_prefix(p)) and _reference(r)
    return _reference(s)


def _nontrivial(s: str, p: bool, c: bool) -> bool:
    return (
        any(ch.isspace() for ch in s)
        or "[" in s
        or "]" in s
        or "//" in s
        or any(ord(ch) > 127 for ch in s)
        or p != c
    )


def _check_string(s: str):
    from curies.w3c import is_w3c_curie, is_w3c_prefix

    gp, gc = is_w3c_prefix(s), is_w3c_curie(s)
    ep, ec = oracle_prefix(s), oracle_curie(s)
    if gp is not ep:
        return f"is_w3c_prefix({s!r}) = {gp!r}, the documented grammar says {ep!r}"
    if gc is not ec:
        return f"is_w3c_curie({s!r}) = {gc!r}, the documented grammar says {ec!r}"
    return None


def _enum_shard(args):
    """Enumerate all strings of length <= L that start with the given first symbols."""
    from curies.w3c import is_w3c_curie, is_w3c_prefix

    head, L = args
    n = nt = 0
    samples = []
    first_bad = None
    for rest_len in range(0, L - len(head) + 1):
        for tail in itertools.product(SYMBOLS, repeat=rest_len):
            s = head + "".join(tail)
            n += 1
            gp, gc = is_w3c_prefix(s), is_w3c_curie(s)
            ep, ec = oracle_prefix(s), oracle_curie(s)
            if gp is not ep or gc is not ec:
                if first_bad is None or (len(s), s) < (len(first_bad), first_bad):
                    first_bad = s
                continue
            if _nontrivial(s, ep, ec):
                nt += 1
                if len(samples) < 2 and len(s) >= 3 and n % 7919 == 0:
                    samples.append(s)
    return n, nt, samples, first_bad


def _codepoint_shard(args):
    """Every Unicode code point (no surrogates) in the positions where character classes matter: alone, as first and as
    later character of a prefix, inside the prefix of a CURIE, and inside the reference."""
    from curies.w3c import is_w3c_curie, is_w3c_prefix

    lo, hi = args
    n = 0
    bad = None
    for cp in range(lo, hi):
        if 0xD800 <= cp <= 0xDFFF:
            continue
        c = chr(cp)
        for s in (c, "a" + c, c + "a", "a" + c + ":1", c + ":1", "a:" + c, "a:1" + c):
            n += 1
            if is_w3c_prefix(s) is not oracle_prefix(s) or is_w3c_curie(s) is not oracle_curie(s):
                if bad is None:
                    bad = s
    return n, bad


def codepoint_sweep(tier: str, seed: int, stats: Stats) -> None:
    step = 0x110000 // 64 + 1
    jobs = [(lo, min(lo + step, 0x110000)) for lo in range(0, 0x110000, step)]
    total, bad = 0, None
    ctx = mp.get_context("fork")
    with ctx.Pool(min(16, os.cpu_count() or 1)) as pool:
        for n, b in pool.imap_unordered(_codepoint_shard, jobs):
            total += n
            if b is not None and (bad is None or b < bad):
                bad = b
    stats.evaluations += total
    stats.extra["codepoint_sweep_strings"] = total
    stats.extra["codepoint_sweep"] = "all 1,112,064 Unicode scalar values x 7 positions (alone, 2nd/1st prefix character, in a CURIE prefix, as prefix, as / in the reference)"
    stats.cls("codepoint-sweep")
    if bad is not None:
        raise Violation(_check_string(bad), {"s": bad})


def exhaustive(tier: str, seed: int, stats: Stats) -> None:
    L = LEN[tier]
    # shards: the empty string, all single symbols as complete strings are covered by heads of length 1 with rest_len 0
    heads = ["".join(t) for t in itertools.product(SYMBOLS, repeat=2)]
    jobs = [(h, L) for h in heads]
    short = [""] + SYMBOLS  # strings shorter than a head
    total = nt = 0
    bad = None
    for s in short:
        total += 1
        msg = _check_string(s)
        if msg:
            bad = s
            break
        if _nontrivial(s, oracle_prefix(s), oracle_curie(s)):
            nt += 1
    samples: list[str] = []
    if bad is None:
        ctx = mp.get_context("fork")
        with ctx.Pool(min(16, os.cpu_count() or 1)) as pool:
            for n, k, smp, fb in pool.imap_unordered(_enum_shard, jobs, chunksize=4):
                total += n
                nt += k
                samples += smp
                if fb is not None and (bad is None or (len(fb), fb) < (len(bad), bad)):
                    bad = fb
    stats.evaluations += total
    stats.extra["exhaustive"] = bad is None
    stats.extra["exhaustive_length_bound"] = L
    stats.extra["exhaustive_strings"] = total
    stats.extra["exhaustive_nontrivial_exact"] = nt
    stats.extra["alphabet"] = SYMBOLS
    # every enumerated string is distinct by construction: register the exact count of non-trivial ones
    stats.nt.update(range(-nt, 0))
    for s in sorted(samples)[:6]:
        stats.samples.append({"class": "exhaustive", "unit": {"s": s, "prefix": oracle_prefix(s), "curie": oracle_curie(s)}})
    if bad is not None:
        raise Violation(_check_string(bad), {"s": bad})


def check(case, stats: Stats) -> None:
    s = case["s"]
    stats.ev()
    msg = _check_string(s)
    if msg:
        raise Violation(msg, case)
    p, c = oracle_prefix(s), oracle_curie(s)
    if _nontrivial(s, p, c):
        klass = "whitespace" if any(ch.isspace() for ch in s) else "bracket" if ("[" in s or "]" in s) else "double-slash" if "//" in s else "non-ascii" if any(ord(ch) > 127 for ch in s) else "validators-disagree"
        stats.nontrivial({"s": s}, klass)
    stats.cls(f"prefix={p},curie={c}")


RANDOM_ALPHABET = SYMBOLS + ["Z", "0", "\r", "\x0b", "\x0c", "\xa0", " ", "　", "\x1f", "ß", "Ω", "%", "?", "=", "b", "9"]


@st.composite
def random_strings(draw, tier="quick"):
    mode = draw(st.integers(0, 3))
    if mode == 0:
        s = draw(st.text(st.characters(exclude_categories=["Cs"]), max_size=12))
    elif mode == 1:
        # NCName-ish prefix, colon, reference-ish tail, then one perturbation
        p = "".join(draw(st.lists(st.sampled_from(["a", "Z", "_", "1", ".", "-", "é"]), max_size=6)))
        r = "".join(draw(st.lists(st.sampled_from(["a", "1", "/", "#", ":", ".", "-", "_", "?", "=", "%"]), max_size=12)))
        s = p + draw(st.sampled_from([":", ":", "", "::"])) + r
        k = draw(st.integers(0, 4))
        if k == 0:
            s += draw(st.sampled_from(["\n", " ", "\t", "\r", " "]))
        elif k == 1 and s:
            i = draw(st.integers(0, len(s)))
            s = s[:i] + draw(st.sampled_from([" ", "[", "]", "//", "\n", "\xa0"])) + s[i:]
    else:
        s = "".join(draw(st.lists(st.sampled_from(RANDOM_ALPHABET), min_size=7, max_size=40)))
    return {"s": s}


SUBS = [
    Sub(name="exhaustive", kind="custom", check=check, custom=exhaustive, sharded=False),
    Sub(name="codepoints", kind="custom", check=check, custom=codepoint_sweep, sharded=False, required_classes=("codepoint-sweep",)),
    Sub(name="random", check=check, strategy=lambda tier: random_strings(tier), n={"quick": 8000, "thorough": 60000},
        required_classes=("nt:whitespace", "nt:bracket", "nt:double-slash", "nt:non-ascii", "prefix=True,curie=True", "prefix=False,curie=True", "prefix=False,curie=False")),
]
