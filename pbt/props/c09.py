"""C09 — chain is a priority union of converters and get_subconverter a restriction."""

from __future__ import annotations

import copy

from hypothesis import strategies as st

from pbt import strategies as S
from pbt.common import Stats, Sub, Violation
from pbt.model import Model, add_record, matching_records, norm_records, prefixes_of, uri_prefixes_of
from pbt.props.c05 import consistency_error
from pbt.sut import BUILD_MODES, Converter, curies, dump_records, mk_converter_via, mk_records

PROPERTY_ID = "C09"
RULE = (
    "Generated: sequences of 1-4 strict converters whose records are drawn from shared small pools (shared CURIE "
    "prefixes, shared URI prefixes, overlap only through a synonym, overlap only up to letter case, the empty prefix), both "
    "case modes; prefix subsets made of canonical prefixes, synonyms, unknown strings or nothing. Inputs are rebuilt from "
    "data for every call. One evaluation = one chain(...) or get_subconverter(...) call. chain: ValueError iff the "
    "documented fold (model add_record(merge=True) over the inputs' records in order) meets a record matching >1 group; "
    "else union of CURIE / URI prefixes (nothing lost or invented), co-membership preserved, records equal the fold's "
    "(earliest canonical prefix / URI prefix win), case-sensitive: every prefix of c1 expands as in c1, chain([c]) == c; "
    "case-insensitive: no two records hold case-fold-equal prefixes; result passes the C04/C05 fresh-converter comparison. "
    "get_subconverter: exactly the records with a prefix or synonym in P; expand as parent on kept, None on others; "
    "compress as parent whenever the parent's owner is kept. Non-trivial = inputs with a cross-converter overlap that is "
    "synonym-only or case-only, or a bridge, or a subset selecting through a synonym; distinct by hash of the input."
)
ASSUMPTIONS = [
    "oracle: pbt/model.py:add_record folded over the inputs' records (order of converter.records), plus set-level laws",
    "default delimiter ':' only: neither chain nor get_subconverter propagates a delimiter and the statement is silent on it",
]

# incl. pairs that are equal up to case but differ in LENGTH (sharp s / SS, fi ligature / FI)
P_POOL = ["a", "A", "b", "B", "ab", "c", "", "é", "C", "stra\u00dfe", "STRASSE", "\ufb01", "FI"]
U_POOL = ["u/", "U/", "u/a", "v#", "w/", "", "x:", "V#", "u/a_", "u/\u00df/", "U/SS/"]


@st.composite
def one_converter(draw, tag: str, wide: bool):
    n = draw(st.integers(0, 4))
    pp = P_POOL + ([f"{tag}p{i}" for i in range(4)] if wide else [])
    uu = U_POOL + ([f"{tag}u{i}/" for i in range(4)] if wide else [])
    used_p, used_u, recs = set(), set(), []
    for _ in range(n):
        p, u = draw(st.sampled_from(pp)), draw(st.sampled_from(uu))
        if p in used_p or u in used_u:
            continue
        ps = [x for x in dict.fromkeys(draw(st.lists(st.sampled_from(pp), max_size=2))) if x != p and x not in used_p]
        us = [x for x in dict.fromkeys(draw(st.lists(st.sampled_from(uu), max_size=2))) if x != u and x not in used_u]
        used_p |= {p, *ps}
        used_u |= {u, *us}
        pat = draw(st.sampled_from([None, None, "^\\d+$"]))
        recs.append({"prefix": p, "uri_prefix": u, "prefix_synonyms": ps, "uri_prefix_synonyms": us, "pattern": pat})
    return recs


@st.composite
def chain_cases(draw, tier="quick"):
    k = draw(st.integers(1, 4))
    wide = draw(st.integers(0, 2)) > 0
    convs = [draw(one_converter(f"k{i}", wide)) for i in range(k)]
    return {"converters": convs, "case_sensitive": draw(st.booleans())}


def _fold(convs_sorted, case_sensitive):
    model: list[dict] = []
    for recs in convs_sorted:
        for r in recs:
            outcome, why = add_record(model, r, case_sensitive=case_sensitive, merge=True)
            if outcome == "reject":
                return None, why
    return model, None


def check_chain(case, stats: Stats) -> None:
    stats.ev()
    cs = case["case_sensitive"]
    specs = case["converters"]
    inputs = [Converter(mk_records(recs)) for recs in specs]
    in_records = [copy.deepcopy(dump_records(c)) for c in inputs]  # order as held by the inputs
    expected, why = _fold(in_records, cs)
    try:
        result = curies.chain(inputs, case_sensitive=cs)
    except ValueError as e:
        stats.cls("chain:ValueError")
        if expected is not None:
            raise Violation(f"chain raised ValueError ({str(e)[:200]}) although no record bridges two earlier ones")
        stats.nontrivial(case, "bridge")
        return
    if expected is None:
        raise Violation("chain succeeded although a later record matches two different earlier records (bridge)")
    stats.cls("chain:ok")
    got = dump_records(result)
    all_in = [r for recs in in_records for r in recs]
    union_p = {p for r in all_in for p in prefixes_of(r)}
    union_u = {u for r in all_in for u in uri_prefixes_of(r)}
    if result.get_prefixes(include_synonyms=True) != union_p:
        raise Violation(f"chain: known CURIE prefixes {sorted(result.get_prefixes(include_synonyms=True))!r} != union of inputs {sorted(union_p)!r}")
    if result.get_uri_prefixes(include_synonyms=True) != union_u:
        raise Violation(f"chain: known URI prefixes {sorted(result.get_uri_prefixes(include_synonyms=True))!r} != union of inputs {sorted(union_u)!r}")
    m = Model(got)
    for r in all_in:
        owners_p = {id(m.owner(p)) for p in prefixes_of(r)}
        owners_u = {id(m.uri_owner(u)) for u in uri_prefixes_of(r)}
        if len(owners_p | owners_u) != 1:
            raise Violation(f"chain: strings of input record {r['prefix']!r} are spread over several result records")
    # the statement fixes which strings end up together and which of them are canonical - not what happens to patterns
    strip = lambda rs: [dict(r, pattern=None) for r in norm_records(rs)]  # noqa: E731
    if strip(got) != strip(expected):
        raise Violation(f"chain: records {strip(got)!r} differ from the documented fold {strip(expected)!r}")
    if cs:
        c1 = inputs[0]
        for r in in_records[0]:
            for p in prefixes_of(r):
                if result.expand(p + ":1") != r["uri_prefix"] + "1":
                    raise Violation(f"chain: {p!r} expands to {result.expand(p + ':1')!r}, the first converter says {r['uri_prefix'] + '1'!r}")
                if result.standardize_prefix(p) != r["prefix"]:
                    raise Violation(f"chain: {p!r} standardises to {result.standardize_prefix(p)!r}, first converter's canonical choice is {r['prefix']!r}")
        if len(inputs) == 1 and norm_records(got) != norm_records(in_records[0]):
            raise Violation("chain([c]) does not have c's records")
    else:
        seen_p, seen_u = {}, {}
        for i, r in enumerate(got):
            for p in prefixes_of(r):
                if seen_p.setdefault(p.casefold(), i) != i:
                    raise Violation(f"chain(case_sensitive=False): two records hold prefixes equal up to case ({p!r})")
            for u in uri_prefixes_of(r):
                if seen_u.setdefault(u.casefold(), i) != i:
                    raise Violation(f"chain(case_sensitive=False): two records hold URI prefixes equal up to case ({u!r})")
    err = consistency_error(result, ":")
    if err:
        raise Violation("chain result: " + err)
    # classification of the overlap structure
    klass = None
    for i, recs in enumerate(in_records):
        earlier = [r for rr in in_records[:i] for r in rr]
        for r in recs:
            if matching_records(earlier, r, True):
                canon_hit = any(r["prefix"] == e["prefix"] or r["uri_prefix"] == e["uri_prefix"] for e in earlier)
                if not canon_hit:
                    klass = klass or "overlap-synonym-only"
            elif matching_records(earlier, r, False):
                klass = "overlap-case-only"
    if klass:
        stats.nontrivial(case, klass + ("-ci" if not cs else "-cs"))


# ------------------------------------------------------------------------------------------- subconverter
@st.composite
def sub_cases(draw, tier="quick"):
    recs = draw(S.record_sets(delimiter=":", max_records=6, max_syn=4, patterns=True))
    ps = S.all_prefixes(recs)
    sel = draw(st.lists(st.sampled_from(ps), min_size=0 if draw(st.integers(0, 4)) == 0 else 1, max_size=4)) if ps else []
    sel += draw(st.lists(st.sampled_from(["zz", "", "A", "a"]), max_size=2))
    return {"records": recs, "prefixes": sel, "build": draw(st.sampled_from(BUILD_MODES)),
            "as": draw(st.sampled_from(["list", "list", "set", "tuple", "frozenset", "generator", "iterator", "dict-keys", "map"]))}


def check_sub(case, stats: Stats) -> None:
    stats.ev()
    recs, sel = case["records"], case["prefixes"]
    parent = mk_converter_via({"delimiter": ":", "records": recs}, case.get("build", "at-once"))
    # P is documented as an Iterable[str]: every way of passing the same prefixes must select the same records
    shape = case.get("as", "list")
    arg = {"list": lambda: list(sel), "set": lambda: set(sel), "tuple": lambda: tuple(sel), "frozenset": lambda: frozenset(sel),
           "generator": lambda: (x for x in sel), "iterator": lambda: iter(list(sel)), "dict-keys": lambda: dict.fromkeys(sel).keys(),
           "map": lambda: map(str, sel)}[shape]()
    stats.cls("P-passed-as:" + ("one-shot-iterator" if shape in ("generator", "iterator", "map") else "collection"))
    sub = parent.get_subconverter(arg)
    keep = [r for r in recs if set(prefixes_of(r)) & set(sel)]
    if norm_records(dump_records(sub)) != norm_records(keep):
        raise Violation(f"get_subconverter({sel!r}) has records {norm_records(dump_records(sub))!r}, expected exactly {norm_records(keep)!r}")
    kept_prefixes = {p for r in keep for p in prefixes_of(r)}
    m = Model(recs)
    for r in recs:
        for p in prefixes_of(r):
            for ident in ("1", "a:b"):
                got = sub.expand(p + ":" + ident)
                want = parent.expand(p + ":" + ident) if p in kept_prefixes else None
                if got != want:
                    raise Violation(f"get_subconverter({sel!r}).expand({p + ':' + ident!r}) = {got!r}, expected {want!r}")
    for u in S.boundary_uri_probes(recs, idents=("1",)):
        lm = m.longest_match(u)
        pu = parent.compress(u)
        if lm is None:
            if sub.compress(u) is not None:
                raise Violation(f"sub-converter compresses {u!r} although the parent does not")
        elif lm[1]["prefix"] in kept_prefixes:
            if sub.compress(u) != pu:
                raise Violation(f"sub-converter compresses {u!r} to {sub.compress(u)!r}, parent (owner kept) to {pu!r}")
    err = consistency_error(sub, ":")
    if err:
        raise Violation("sub-converter: " + err)
    stats.cls("sub:" + ("empty" if not keep else "all" if len(keep) == len(recs) else "proper"))
    if any(s in kept_prefixes and s not in {r["prefix"] for r in recs} for s in sel):
        stats.nontrivial(case, "subset-through-synonym")


SUBS = [
    Sub(name="chain", check=check_chain, strategy=lambda tier: chain_cases(tier), n={"quick": 1500, "thorough": 4000},
        required_classes=("chain:ok", "chain:ValueError", "nt:bridge", "nt:overlap-synonym-only-cs", "nt:overlap-case-only-ci", "nt:overlap-case-only-cs")),
    Sub(name="subconverter", check=check_sub, strategy=lambda tier: sub_cases(tier), n={"quick": 700, "thorough": 2000},
        required_classes=("sub:empty", "sub:proper", "sub:all", "nt:subset-through-synonym", "P-passed-as:one-shot-iterator", "P-passed-as:collection")),
]
