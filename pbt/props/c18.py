"""C18 — the mapping service returns exactly the equivalent URIs, in the requested format."""

from __future__ import annotations

import csv
import io
import json
import sys
import warnings
import xml.etree.ElementTree as ET
from pathlib import Path
from urllib.parse import quote

from hypothesis import strategies as st

from pbt import strategies as S
from pbt.common import Stats, Sub, Violation
from pbt.model import Model, uri_prefixes_of
from pbt.sut import Converter, mk_record, mk_records

PROPERTY_ID = "C18"
RULE = (
    "Three generated sub-checks. (graph) strict converters with URL-shaped URI prefixes and synonyms, some synonyms "
    "deliberately invalid IRI text (space, quote, braces); recognised / unrecognised URIs; ?s or ?o bound; VALUES inside or "
    "after WHERE (both the one-variable and the parenthesised form); configured vs. other predicate; one or two configured "
    "predicates; owl:sameAs written as prefixed name or full IRI: the set of bindings of the free variable must equal the "
    "model's set (owner of the longest match -> all its URI prefixes + identifier, filtered by IRI validity), be empty for "
    "unrecognised URIs / other predicates and be identical for all query shapes. (http) the same query over Flask GET, "
    "Flask POST and FastAPI GET with a generated Accept header: bindings parsed by independent JSON / XML / CSV readers "
    "equal the model's answer and Content-Type equals the negotiation oracle. (negotiation) Accept headers from the RFC "
    "7231 grammar: media ranges from the 3 supported types, 5 synonyms and unsupported types incl. */*, optional ;q= "
    "(0<q<=1, 1-3 decimals), optional spaces/tabs around ',' and ';', also None and '': handle_header must return the "
    "highest-q supported-or-synonym type (ties: any maximum), else SPARQL XML, and never raise. One evaluation = one query "
    "shape / request / header. Non-trivial = the queried URI is a synonym rendering or the map has nested prefixes (graph, "
    "http), or the header has whitespace AND q-values AND >=2 supported types (negotiation); distinct by hash of the case."
)
ASSUMPTIONS = [
    "oracle: pbt/model.py longest match + an independent list of characters that are invalid in IRIs; negotiation oracle written from RFC 7231",
    "results are compared as sets; duplicate rows are not asserted on",
    "FastAPI POST is not exercised: python-multipart is absent from the sandbox; a two-line import shim lets the FastAPI app be built for GET",
]

OWL_SAMEAS = "http://www.w3.org/2002/07/owl#sameAs"
SKOS_EXACT = "http://www.w3.org/2004/02/skos/core#exactMatch"
OTHER_PRED = "http://www.w3.org/2000/01/rdf-schema#seeAlso"
INVALID_IRI_CHARS = '<>" {}|\\^`'

XML = "application/sparql-results+xml"
JSON = "application/sparql-results+json"
CSV = "application/sparql-results+csv"
SUPPORTED = [JSON, XML, CSV]
SYNONYMS = {"application/json": JSON, "text/json": JSON, "application/xml": XML, "text/xml": XML, "text/csv": CSV}
UNSUPPORTED = ["*/*", "text/html", "application/x-binary-rdf-results-table", "text/plain", "application/*", "text/turtle"]


def _ensure_multipart_shim():
    try:
        import python_multipart  # noqa: F401
    except ImportError:
        sys.path.append(str(Path(__file__).resolve().parent.parent.parent / "shims"))
        import python_multipart  # noqa: F401


# ------------------------------------------------------------------------------------------- negotiation
def negotiation_oracle(header):
    """Set of admissible answers."""
    if not header:
        return {XML}
    best_q, best = -1.0, set()
    for part in header.split(","):
        bits = [b.strip(" \t") for b in part.split(";")]
        mt, q = bits[0], 1.0
        for b in bits[1:]:
            name, _, val = b.partition("=")
            if name.strip(" \t").lower() == "q":
                q = float(val.strip(" \t"))
        canon = SYNONYMS.get(mt, mt)
        if canon not in SUPPORTED:
            continue
        if q > best_q:
            best_q, best = q, {canon}
        elif q == best_q:
            best.add(canon)
    if best and best_q == 0.0:
        best = best | {XML}  # RFC 7231: q=0 means "not acceptable" - falling back to the default is as admissible as honouring it
    return best or {XML}


@st.composite
def accept_headers(draw, tier="quick"):
    kind = draw(st.integers(0, 12))
    if kind == 0:
        return {"header": None}
    if kind == 1:
        return {"header": ""}
    types = draw(st.lists(st.sampled_from(SUPPORTED + list(SYNONYMS) + UNSUPPORTED), unique=True, min_size=1, max_size=6))
    ows = st.sampled_from(["", "", " ", "  ", "\t", " \t"])
    parts = []
    for t in types:
        s = t
        if draw(st.integers(0, 2)) > 0:
            digits = draw(st.integers(1, 3))
            # weight zero is part of the grammar too ("q=0", "q=0.0", ...): it must rank below every positive weight
            q = 0 if draw(st.integers(0, 5)) == 0 else draw(st.integers(1, 10 ** digits))
            qs = "1" if q == 10 ** digits else ("0" if q == 0 and draw(st.booleans()) else "0." + str(q).rjust(digits, "0"))
            if qs == "1" and draw(st.booleans()):
                qs = "1." + "0" * draw(st.integers(0, 3))
            s += draw(ows) + ";" + draw(ows) + "q=" + qs
        parts.append(s)
    header = parts[0]
    for p in parts[1:]:
        header += draw(ows) + "," + draw(ows) + p
    return {"header": header}


def check_negotiation(case, stats: Stats) -> None:
    from curies.mapping_service.utils import handle_header

    for absent in (None, ""):
        if handle_header(absent) != XML:
            raise Violation(f"handle_header({absent!r}) = {handle_header(absent)!r}, an absent Accept header must default to SPARQL XML")

    stats.ev()
    h = case["header"]
    admissible = negotiation_oracle(h)
    try:
        got = handle_header(h)
    except Exception as e:  # noqa: BLE001
        raise Violation(f"handle_header({h!r}) raised {type(e).__name__}: {e}") from e
    if got not in admissible:
        raise Violation(f"handle_header({h!r}) = {got!r}, the client's highest-q supported type is {sorted(admissible)!r}")
    if h:
        n_sup = sum(1 for part in h.split(",") if SYNONYMS.get(part.split(";")[0].strip(" \t"), part.split(";")[0].strip(" \t")) in SUPPORTED)
        ws = any(ch in h for ch in " \t")
        qv = "q=" in h
        if n_sup >= 2 and any(b.strip(" \t").partition("=")[2].strip(" \t") in ("0", "0.0", "0.00", "0.000") for part in h.split(",") for b in part.split(";")[1:]):
            stats.nontrivial({"header": h}, "zero-weight+2supported")
        elif ws and qv and n_sup >= 2:
            stats.nontrivial({"header": h}, "whitespace+q+2supported")
        elif ws:
            stats.cls("header:whitespace")
        else:
            stats.cls("header:compact")
    else:
        stats.cls("header:absent")


# ------------------------------------------------------------------------------------------- graph level
# identifiers: plain ones and ones that are legal IRI text but special in a result format (comma / quote characters for CSV,
# ampersand and entity-like text for XML, non-ASCII and astral characters for JSON / the byte encoding)
IDENTS = ["1", "", "a/b", "x_1", "0001", "A#b", "1,5", ",", "a,b,c", "a&b", "&lt;", "&amp;amp;", "x'y", "é", "\u4e2d\u6587", "\U0001F600", "a;b", "a=b?c=d", "%22", "(1)", "a+b", "~t", "@x", "*"]


@st.composite
def service_cases(draw, tier="quick", http=False):
    # the converter behind the service may use any CURIE delimiter (the service deals in URIs only)
    delim = draw(st.sampled_from([":", ":", "/", "|", "::", "_"]))
    recs = draw(S.record_sets(delimiter=delim, min_records=1, max_records=4, max_syn=3, url_shaped=True, unicode_arm=False, allow_empty_prefix=False))
    # some URI-prefix synonyms that are not valid IRI text
    for r in recs:
        if draw(st.integers(0, 3)) == 0:
            bad = r["uri_prefix"] + draw(st.sampled_from([" sp/", "q\"/", "{b}/", "a|b/", "\\x/", "^/", "`/"]))
            if bad not in S.all_uri_prefixes(recs):
                r["uri_prefix_synonyms"].append(bad)
    # ... and some that are valid IRI text but need care in one of the three result formats (CSV quoting, XML escaping,
    # JSON / UTF-8 encoding)
    for r in recs:
        if draw(st.integers(0, 3)) == 0:
            odd = r["uri_prefix"] + draw(st.sampled_from(["q,r/", "a&b/", "&amp;/", "x'y/", "é/", "a;b=", "%2C/", "\U0001F600/", "v\u00a0", "w/\u3000", "e\u0301/", "\u212b/"]))
            if odd not in S.all_uri_prefixes(recs):
                r["uri_prefix_synonyms"].append(odd)
    forced = None
    if draw(st.integers(0, 3)) == 0:
        # a URI prefix with a Unicode whitespace character (valid IRI text) at its end or start: any strip() changes it
        r = draw(st.sampled_from(recs))
        edge = draw(st.sampled_from([r["uri_prefix"] + "v\u00a0", r["uri_prefix"] + "\u3000", "\u00a0" + r["uri_prefix"], r["uri_prefix"] + "x/\u2003"]))
        if edge not in S.all_uri_prefixes(recs):
            r["uri_prefix_synonyms"].append(edge)
            forced = draw(st.sampled_from([edge, r["uri_prefix"]])) + draw(st.sampled_from(["1", "a/b"]))
    valid_ups = [u for u in S.all_uri_prefixes(recs) if not any(ch in INVALID_IRI_CHARS for ch in u)]
    mode = draw(st.integers(0, 5))
    valid_syns = [u for r in recs for u in r["uri_prefix_synonyms"] if not any(ch in INVALID_IRI_CHARS for ch in u)]
    if mode == 5 and valid_syns:
        uri = draw(st.sampled_from(valid_syns)) + draw(st.sampled_from(["1", "a/b", "0001"]))  # a synonym rendering
    elif mode <= 2 or mode == 5:
        up = draw(st.sampled_from(valid_ups))
        uri = up + draw(st.sampled_from(IDENTS))
        if up and draw(st.integers(0, 5)) == 0:
            uri = up + "1?seeAlso=" + draw(st.sampled_from([up, up, *valid_ups])) + "2"  # a URL inside the URL: the matched prefix occurs again
    elif mode == 3:
        uri = draw(st.sampled_from(["http://unknown.example/1", "urn:x:1", "https://h", "http://g.or"]))
    else:
        u = draw(st.sampled_from(valid_ups))
        uri = u[:-1] + "1"
    if forced is not None and draw(st.booleans()):
        uri = forced
    preds = draw(st.sampled_from([None, None, [OWL_SAMEAS], [SKOS_EXACT], [OWL_SAMEAS, SKOS_EXACT]]))
    configured = preds or [OWL_SAMEAS]
    qpred = draw(st.sampled_from(configured + configured + [OTHER_PRED]))
    case = {"records": recs, "delimiter": delim, "uri": uri, "predicates": preds, "query_predicate": qpred, "bound": draw(st.sampled_from(["s", "o"])),
            # records registered only after the graph / apps were built and had answered once (the service holds its
            # converter by reference and must answer for the converter as it is at query time)
            "late": min(draw(st.sampled_from([0, 0, 1, 2])), len(recs))}
    # further URIs looked up on the SAME graph before and together with the main one (the answer for a URI must not
    # depend on what was looked up before it): prefer URIs of other, nested prefixes
    more = []
    for _ in range(draw(st.integers(0, 3))):
        more.append(draw(st.sampled_from(valid_ups)) + draw(st.sampled_from(["1", "a/b", "x_1", "", "1,5", "a&b"])))
    case["more_uris"] = more
    case["decorated"] = draw(st.integers(0, 2)) == 0
    if http:
        case["accept"] = draw(accept_headers())["header"]
    return case


def _queries(uri, pred, bound, allow_prefixed):
    free = "o" if bound == "s" else "s"
    p = f"<{pred}>"
    shapes = {
        "values-inside": f"SELECT ?{free} WHERE {{ VALUES ?{bound} {{ <{uri}> }} ?s {p} ?o }}",
        "values-after": f"SELECT ?{free} WHERE {{ ?s {p} ?o }} VALUES ?{bound} {{ <{uri}> }}",
        "values-after-parenthesised": f"SELECT ?{free} WHERE {{ ?s {p} ?o . }}\nVALUES (?{bound}) {{ (<{uri}>) }}",
        "values-inside-star": f"SELECT DISTINCT * WHERE {{ VALUES ?{bound} {{ <{uri}> }} . ?s {p} ?o . }}",
    }
    if allow_prefixed and pred == OWL_SAMEAS:
        shapes["prefixed-name"] = f"SELECT ?{free} WHERE {{ VALUES ?{bound} {{ <{uri}> }} ?s owl:sameAs ?o }}"
    return free, shapes


NEVER_PRED = "http://example.org/never-configured"


def _decorated_queries(uri, pred, bound):
    """The same lookup with an ordinary extra clause in the WHERE body (FILTER, BIND, OPTIONAL, UNION), each with the VALUES
    block inside and after the WHERE block: (name, query, function from the undecorated expected set to the expected set)."""
    free = "o" if bound == "s" else "s"
    p = f"<{pred}>"
    head = uri[: max(8, len(uri) // 2)]
    bodies = [
        ("filter-not-self", "?s {p} ?o FILTER(?s != ?o)", lambda want: want - {uri}),
        ("filter-isiri", "?s {p} ?o . FILTER(isIRI(?{free}))", lambda want: set(want)),
        ("filter-strstarts", '?s {p} ?o FILTER(STRSTARTS(STR(?{free}), "{head}"))', lambda want: {x for x in want if x.startswith(head)}),
        ("bind", "?s {p} ?o BIND(STR(?{free}) AS ?x)", lambda want: set(want)),
        ("optional", "?s {p} ?o OPTIONAL {{ ?{free} <{never}> ?z }}", lambda want: set(want)),
        ("union", "{{ ?s {p} ?o }} UNION {{ ?s <{never}> ?o }}", lambda want: set(want)),
    ]
    out = []
    for name, body, fn in bodies:
        b = body.format(p=p, free=free, head=head, never=NEVER_PRED)
        out.append((name + "/values-inside", f"SELECT ?{free} WHERE {{ VALUES ?{bound} {{ <{uri}> }} {b} }}", fn))
        out.append((name + "/values-after", f"SELECT ?{free} WHERE {{ {b} }} VALUES ?{bound} {{ <{uri}> }}", fn))
    return out


def _extend(conv, records):
    for r in records:
        conv.add_record(mk_record({"prefix": r["prefix"], "uri_prefix": r["uri_prefix"]}))
        for syn in r["prefix_synonyms"]:
            conv.add_prefix(syn, r["uri_prefix"], merge=True)
        for syn in r["uri_prefix_synonyms"]:
            conv.add_record(mk_record({"prefix": r["prefix"], "uri_prefix": syn}), merge=True)


def _expected(case, records=None):
    model = Model(case["records"] if records is None else records)
    configured = case["predicates"] or [OWL_SAMEAS]
    lm = model.longest_match(case["uri"])
    if lm is None or case["query_predicate"] not in configured:
        return set(), lm
    p, r = lm
    ident = case["uri"][len(p):]
    return {u + ident for u in uri_prefixes_of(r) if not any(ch in INVALID_IRI_CHARS for ch in u + ident)}, lm


def _classify(case, lm, stats, extra=None):
    model = Model(case["records"])
    klass = None
    if lm is not None and lm[0] != lm[1]["uri_prefix"]:
        klass = "queried-uri-is-synonym-rendering"
    elif lm is not None and len(model.uri_matches(case["uri"])) > 1:
        klass = "nested-prefixes-match"
    elif lm is not None and any(any(ch in INVALID_IRI_CHARS for ch in u) for u in uri_prefixes_of(lm[1])):
        klass = "invalid-iri-synonym-filtered"
    stats.cls("recognised" if lm is not None else "unrecognised")
    if lm is not None and any(ch in u for ch in ",&'" for u in [case["uri"], *uri_prefixes_of(lm[1])]):
        stats.cls("answer-needs-csv-quoting-or-xml-escaping")
    if lm is not None and any(ord(ch) > 127 for u in [case["uri"], *uri_prefixes_of(lm[1])] for ch in u):
        stats.cls("answer-has-non-ascii")
    if case["query_predicate"] not in (case["predicates"] or [OWL_SAMEAS]):
        stats.cls("other-predicate")
    if klass:
        unit = {k: case[k] for k in ("records", "uri", "predicates", "query_predicate", "bound")}
        if extra:
            unit.update(extra)
        stats.nontrivial(unit, klass)


def check_graph(case, stats: Stats) -> None:
    from curies.mapping_service import MappingServiceGraph, MappingServiceSPARQLProcessor

    if any(ch in INVALID_IRI_CHARS for ch in case["uri"]):
        return
    recs = case["records"]
    late = case.get("late", 0)
    early = recs[: len(recs) - late] if late else recs
    conv = Converter(mk_records(early), delimiter=case.get("delimiter", ":"))
    graph = MappingServiceGraph(converter=conv, predicates=case["predicates"])
    processor = MappingServiceSPARQLProcessor(graph)
    free, shapes = _queries(case["uri"], case["query_predicate"], case["bound"], True)
    phases = [("before the converter was extended", early), ("after the converter was extended", recs)] if late else [("", recs)]
    for phase, current in phases:
        if phase.startswith("after"):
            _extend(conv, recs[len(recs) - late:])
            stats.cls("converter-extended-after-graph-built")
        want, lm = _expected(case, current)
        for name, q in shapes.items():
            stats.ev()
            with warnings.catch_warnings():
                warnings.simplefilter("ignore")
                rows = list(graph.query(q, processor=processor))
            got = {str(getattr(row, free)) for row in rows}
            if got != want:
                raise Violation(f"{phase} query shape {name} binding ?{case['bound']} to <{case['uri']}> over <{case['query_predicate']}> returned ?{free} = {sorted(got)!r}, expected {sorted(want)!r}\n{q}")
    if case.get("decorated", True) and '"' not in case["uri"] and "\\" not in case["uri"]:
        for name, q, fn in _decorated_queries(case["uri"], case["query_predicate"], case["bound"]):
            stats.ev()
            with warnings.catch_warnings():
                warnings.simplefilter("ignore")
                got = {str(getattr(row, free)) for row in graph.query(q, processor=processor)}
            exp = fn(want)
            if got != exp:
                raise Violation(f"query shape {name} binding ?{case['bound']} to <{case['uri']}> returned ?{free} = {sorted(got)!r}, expected {sorted(exp)!r}\n{q}")
        stats.cls("decorated-where-bodies")
    # a sequence of lookups on the same graph, then all of them in one VALUES block: every URI keeps its own answer
    seq = [u for u in case.get("more_uris", []) if not any(ch in INVALID_IRI_CHARS for ch in u)] + [case["uri"]]
    if len(seq) > 1 and case["query_predicate"] in (case["predicates"] or [OWL_SAMEAS]):
        b, f = case["bound"], free
        for order in (seq, list(reversed(seq))):
            per_uri = {}
            for u in order:
                want_u, _ = _expected(dict(case, uri=u), recs)
                per_uri[u] = want_u
                stats.ev()
                q = f"SELECT ?{f} WHERE {{ VALUES ?{b} {{ <{u}> }} ?s <{case['query_predicate']}> ?o }}"
                with warnings.catch_warnings():
                    warnings.simplefilter("ignore")
                    got = {str(getattr(row, f)) for row in graph.query(q, processor=processor)}
                if got != want_u:
                    raise Violation(f"lookup sequence {order!r}: <{u}> returned ?{f} = {sorted(got)!r}, expected {sorted(want_u)!r}")
            stats.ev()
            values = " ".join(f"<{u}>" for u in order)
            for q in (f"SELECT ?s ?o WHERE {{ VALUES ?{b} {{ {values} }} ?s <{case['query_predicate']}> ?o }}",
                      f"SELECT ?s ?o WHERE {{ ?s <{case['query_predicate']}> ?o }} VALUES ?{b} {{ {values} }}"):
                with warnings.catch_warnings():
                    warnings.simplefilter("ignore")
                    rows = list(graph.query(q, processor=processor))
                got_pairs = {(str(getattr(r, b)), str(getattr(r, f))) for r in rows}
                want_pairs = {(u, x) for u in order for x in per_uri[u]}
                if got_pairs != want_pairs:
                    raise Violation(f"VALUES block {order!r}: pairs {sorted(got_pairs)!r}, expected {sorted(want_pairs)!r}\n{q}")
        stats.cls("several-uris-on-one-graph")
    _classify(case, lm, stats)


# ------------------------------------------------------------------------------------------- http level
def _parse_bindings(content_type: str, body: str, var: str) -> set:
    if content_type == JSON:
        data = json.loads(body)
        return {b[var]["value"] for b in data["results"]["bindings"] if var in b}
    if content_type == XML:
        ns = {"s": "http://www.w3.org/2005/sparql-results#"}
        root = ET.fromstring(body)
        out = set()
        for res in root.findall("s:results/s:result", ns):
            for b in res.findall("s:binding", ns):
                if b.get("name") == var:
                    out.add(b.find("s:uri", ns).text)
        return out
    rows = list(csv.reader(io.StringIO(body)))
    if not rows:
        return set()
    idx = rows[0].index(var)
    return {r[idx] for r in rows[1:] if r}


def check_http(case, stats: Stats) -> None:
    if any(ch in INVALID_IRI_CHARS for ch in case["uri"]):
        return
    _ensure_multipart_shim()
    from curies.mapping_service import get_fastapi_mapping_app, get_flask_mapping_app
    from curies.mapping_service.api import get_fastapi_router, get_flask_mapping_blueprint
    from starlette.testclient import TestClient

    recs = case["records"]
    late = case.get("late", 0)
    early = recs[: len(recs) - late] if late else recs
    conv = Converter(mk_records(early), delimiter=case.get("delimiter", ":"))
    if case["predicates"] not in (None, [OWL_SAMEAS]):
        case = dict(case, predicates=None, query_predicate=case["query_predicate"] if case["query_predicate"] != SKOS_EXACT else OTHER_PRED)
    free, shapes = _queries(case["uri"], case["query_predicate"], case["bound"], True)
    accept = case.get("accept")
    want_ct = negotiation_oracle(accept)
    with warnings.catch_warnings():
        warnings.simplefilter("ignore")
        flask_client = get_flask_mapping_app(conv).test_client()
        fast_client = TestClient(get_fastapi_mapping_app(conv))
        phases = [("before the converter was extended", early), ("after the converter was extended", recs)] if late else [("", recs)]
        for phase, current in phases:
            if phase.startswith("after"):
                _extend(conv, recs[len(recs) - late:])
                stats.cls("converter-extended-after-app-built")
            want, lm = _expected(case, current)
            # the generated Accept header with both VALUES placements, then every supported format by its plain media
            # type (what is delivered must not depend on the format, C18)
            accept0 = case.get("accept")
            for name, acc in [("values-inside", accept0), ("values-after", accept0)] + [("values-inside", t) for t in (JSON, XML, CSV, "text/csv")]:
                q = shapes[name]
                accept, want_ct = acc, negotiation_oracle(acc)
                headers = {} if accept is None else {"Accept": accept}
                calls = {
                    "flask-get": lambda: flask_client.get("/sparql", query_string={"query": q}, headers=headers),
                    "flask-post": lambda: flask_client.post("/sparql", data={"query": q}, headers=headers),
                }
                if accept is not None:  # FastAPI declares the Accept header as required
                    calls["fastapi-get"] = lambda: fast_client.get("/sparql", params={"query": q}, headers=headers)
                for how, fn in calls.items():
                    stats.ev()
                    resp = fn()
                    status = resp.status_code
                    if status != 200:
                        raise Violation(f"{phase} {how} {name} Accept={accept!r}: HTTP {status}")
                    ct = (resp.headers.get("content-type") or "").split(";")[0].strip()
                    if ct not in want_ct:
                        raise Violation(f"{phase} {how} Accept={accept!r}: Content-Type {ct!r}, negotiation oracle allows {sorted(want_ct)!r}")
                    body = resp.get_data(as_text=True) if hasattr(resp, "get_data") else resp.text
                    got = _parse_bindings(ct, body, free)
                    if got != want:
                        raise Violation(f"{phase} {how} {name} Accept={accept!r} ({ct}): ?{free} = {sorted(got)!r}, expected {sorted(want)!r}")
    _classify(case, lm, stats, {"accept": case.get("accept")})


SUBS = [
    Sub(name="negotiation", check=check_negotiation, strategy=lambda tier: accept_headers(tier), n={"quick": 4000, "thorough": 20000},
        required_classes=("nt:whitespace+q+2supported", "header:compact")),
    Sub(name="graph", check=check_graph, strategy=lambda tier: service_cases(tier), n={"quick": 200, "thorough": 600},
        required_classes=("recognised", "unrecognised", "other-predicate", "nt:queried-uri-is-synonym-rendering", "nt:invalid-iri-synonym-filtered", "converter-extended-after-graph-built", "several-uris-on-one-graph", "decorated-where-bodies")),
    Sub(name="http", check=check_http, strategy=lambda tier: service_cases(tier, http=True), n={"quick": 80, "thorough": 250},
        required_classes=("recognised", "answer-needs-csv-quoting-or-xml-escaping", "answer-has-non-ascii")),
]
