"""C11 — CURIE-prefix remapping renames records without losing information."""

from __future__ import annotations

import copy

from hypothesis import strategies as st

from pbt import strategies as S
from pbt.common import Stats, Sub, Violation
from pbt.model import Model, norm_record, norm_records, prefixes_of, uri_prefixes_of
from pbt.sut import BUILD_MODES, Converter, curies, dump_records, mk_converter_via, mk_records

PROPERTY_ID = "C11"
RULE = (
    "Generated: strict converters (1-5 records with synonyms on both sides) and remapping dictionaries whose keys are "
    "known canonical prefixes, known synonyms or unknown strings and whose values are unused names, the record's own "
    "synonym, another record's canonical prefix or synonym, or another key (full chains, partially applicable chains with "
    "an unknown head, swaps). One evaluation = one remap_curie_prefixes call. Either a documented error (DuplicateKeys, "
    "DuplicateValues, InconsistentMapping, CycleDetected) that is justified by its documented condition and nothing else, "
    "or: same number of records; every record keeps exactly its URI prefixes and canonical URI prefix; every probe URI "
    "compresses to the same identifier under the canonical prefix of the record owning that URI prefix; every prefix known "
    "before is known after; nothing is invented beyond targets of applicable pairs; an applicable pair with an unused, "
    "uncontested target makes it canonical for old's record; a pair whose target belongs to another un-renamed record "
    "changes neither record; with keys and values disjoint the records equal an exact sequential model. "
    "Non-trivial = a key that is a synonym, a chain, a partially applicable chain, or a target that is an existing synonym; "
    "distinct by hash of (records, remapping)."
)
ASSUMPTIONS = [
    "oracle: invariants from the statement for every outcome + an exact sequential model when keys and values are disjoint",
    "default delimiter; patterns are not asserted on (the statement does not mention them)",
]


@st.composite
def cases(draw, tier="quick"):
    recs = draw(S.record_sets(delimiter=":", repeat_synonyms=True, min_records=1, max_records=5, max_syn=4, unicode_arm=False, allow_empty_prefix=draw(st.booleans())))
    canon = [r["prefix"] for r in recs]
    syns = [s for r in recs for s in r["prefix_synonyms"]]
    known = list(dict.fromkeys(canon + syns))  # (a synonym may be listed twice in its record)
    unknown = ["zz", "yy", "n0", "n1", "n2"]
    shape = draw(st.sampled_from(["free", "free", "free", "chain", "partial-chain", "swap", "inconsistent", "two-names-of-one-record"]))
    mapping: list[list[str]] = []
    if shape == "free":
        keys = draw(st.lists(st.sampled_from(known + unknown[:2]), unique=True, min_size=1, max_size=4))
        for k in keys:
            mode = draw(st.integers(0, 5))
            owner = next((r for r in recs if k in prefixes_of(r)), None)
            if mode == 0 and owner is not None and owner["prefix_synonyms"]:
                v = draw(st.sampled_from(owner["prefix_synonyms"] + [owner["prefix"]]))
            elif mode == 1:
                v = draw(st.sampled_from(known))
            elif mode == 2 and len(keys) > 1:
                v = draw(st.sampled_from(keys))
            else:
                v = draw(st.sampled_from(unknown[2:] + ["m0", "m1", "M0"]))
            mapping.append([k, v])
    elif shape in ("chain", "partial-chain"):
        length = draw(st.integers(2, 4))
        pool = known + (unknown[:2] if shape == "partial-chain" else [])
        nodes = draw(st.lists(st.sampled_from(pool), unique=True, min_size=min(length, len(pool)), max_size=min(length, len(pool))))
        if shape == "partial-chain" and nodes:
            nodes[draw(st.integers(0, len(nodes) - 1))] = draw(st.sampled_from(unknown[:2]))
            nodes = list(dict.fromkeys(nodes))
        nodes.append(draw(st.sampled_from(["end0", "end1"] + known)))
        nodes = [n for i, n in enumerate(nodes) if i == len(nodes) - 1 or n not in nodes[:i]]
        for a, b in zip(nodes, nodes[1:]):
            if a != b and a not in [m[0] for m in mapping]:
                mapping.append([a, b])
    elif shape == "two-names-of-one-record":
        # two keys (or two values) that name the same record - its canonical prefix (possibly the empty one) and a synonym:
        # documented as DuplicateKeys / DuplicateValues
        multi = [r for r in recs if r["prefix_synonyms"]]
        if multi:
            r = draw(st.sampled_from(multi))
            if "" not in known and draw(st.booleans()):
                # the record is the default namespace: its canonical prefix is the empty string, the old name a synonym
                r["prefix_synonyms"].append(r["prefix"])
                r["prefix"] = ""
                known.append("")
            n1, n2 = r["prefix"], draw(st.sampled_from(r["prefix_synonyms"]))
            if draw(st.booleans()):
                mapping = [[n1, "m0"], [n2, "m1"]]
            else:
                others = [x for x in known if x not in prefixes_of(r)] or ["zz"]
                ks = draw(st.lists(st.sampled_from(others + ["yy"]), unique=True, min_size=2, max_size=2)) if len(set(others + ["yy"])) >= 2 else ["zz", "yy"]
                mapping = [[ks[0], n1], [ks[1], n2]]
            if draw(st.booleans()):
                mapping.append([draw(st.sampled_from(unknown)), "m2"])
        else:
            mapping = [[known[0], "m0"]]
    elif shape == "inconsistent":
        # one record referred to by two different strings: once as a key, once as the value of another pair
        r = draw(st.sampled_from(recs))
        names = prefixes_of(r)
        k1 = draw(st.sampled_from(names))
        others = [x for x in known if x not in names] or ["zz"]
        k2 = draw(st.sampled_from(others))
        v2 = draw(st.sampled_from([x for x in names if x != k1] or names))
        mapping = [[k1, draw(st.sampled_from(["m0", "m1"]))], [k2, v2]]
    else:
        # a cycle of length 2-3 over known prefixes and (sometimes) one unknown string, alone or together with pairs outside it
        pool = known + unknown[:2]
        k = draw(st.integers(2, 3))
        nodes = draw(st.lists(st.sampled_from(pool), unique=True, min_size=min(k, len(pool)), max_size=min(k, len(pool))))
        if len(nodes) >= 2:
            mapping = [[a, b] for a, b in zip(nodes, nodes[1:] + nodes[:1])]
            for _ in range(draw(st.integers(0, 2))):
                extra_key = draw(st.sampled_from(pool + ["xx"]))
                if extra_key not in [m[0] for m in mapping]:
                    mapping.append([extra_key, draw(st.sampled_from(["m0", "m1", "M0"] + known))])
        else:
            mapping = [[known[0], "m0"]]
    if not mapping:
        mapping = [[known[0], "m0"]]
    # the remapping is a dictionary: the order in which its pairs were inserted must not matter
    if len(mapping) > 1:
        mapping = [mapping[i] for i in draw(st.permutations(range(len(mapping))))]
    return {"records": recs, "mapping": mapping, "shape": shape, "build": draw(st.sampled_from(BUILD_MODES))}


def _has_cycle(mapping: dict) -> bool:
    for start in mapping:
        seen, cur = set(), start
        while cur in mapping:
            if cur in seen:
                return True
            seen.add(cur)
            cur = mapping[cur]
    return False


def _sequential_model(recs, mapping):
    """Exact model for keys ∩ values = ∅ (documented: sorted pairs, skip unknown, skip clashes, old name becomes a synonym)."""
    state = copy.deepcopy(recs)
    orig = Model(recs)
    for old, new in sorted(mapping.items()):
        o = orig.owner(old)
        if o is None:
            continue
        rec = next(r for r in state if r["uri_prefix"] == o["uri_prefix"])
        tgt = next((r for r in state if new in prefixes_of(r)), None)
        if tgt is not None and tgt is not rec:
            continue
        rec["prefix_synonyms"] = sorted((set(rec["prefix_synonyms"]) | {rec["prefix"]}) - {new})
        rec["prefix"] = new
    return state


def check(case, stats: Stats) -> None:
    stats.ev()
    recs = case["records"]
    mapping = {k: v for k, v in case["mapping"]}
    model = Model(recs)
    conv = mk_converter_via({"delimiter": ":", "records": recs}, case.get("build", "at-once"))
    R = curies.reconciliation
    known_before = set(model.all_prefixes())
    # what the INPUT contains (independent of which of several applicable errors the implementation reports first)
    _ok = [id(model.owner(k)) for k in mapping if model.owner(k) is not None]
    _ov = [id(model.owner(v)) for v in mapping.values() if model.owner(v) is not None]
    if _has_cycle(mapping):
        stats.cls("input:cycle")
    if len(set(_ok)) != len(_ok):
        stats.cls("input:two-keys-name-one-record")
    if len(set(_ov)) != len(_ov):
        stats.cls("input:two-values-name-one-record")
    try:
        out = curies.remap_curie_prefixes(conv, dict(mapping))
    except (R.DuplicateKeys, R.DuplicateValues, R.InconsistentMapping, R.CycleDetected) as e:
        # the documented classes are what counts (a more specific subclass still is one of them)
        kind = next(name for name in ("DuplicateKeys", "DuplicateValues", "InconsistentMapping", "CycleDetected") if isinstance(e, getattr(R, name)))
        stats.cls("outcome:" + kind)
        owners_k = [id(model.owner(k)) for k in mapping if model.owner(k) is not None]
        owners_v = [id(model.owner(v)) for v in mapping.values() if model.owner(v) is not None]
        if kind == "DuplicateKeys" and len(set(owners_k)) == len(owners_k):
            raise Violation(f"DuplicateKeys raised but no two keys of {mapping!r} correspond to the same record")
        if kind == "DuplicateValues" and len(set(owners_v)) == len(owners_v):
            raise Violation(f"DuplicateValues raised but no two values of {mapping!r} correspond to the same record")
        if kind == "CycleDetected" and not _has_cycle(mapping):
            raise Violation(f"CycleDetected raised but {mapping!r} has no cycle")
        if kind == "InconsistentMapping":
            refs: dict[int, set[str]] = {}
            for s in list(mapping) + list(mapping.values()):
                o = model.owner(s)
                if o is not None:
                    refs.setdefault(id(o), set()).add(s)
            if not any(len(v) > 1 for v in refs.values()):
                raise Violation(f"InconsistentMapping raised but no record is referred to by two different strings in {mapping!r}")
        return
    except Exception as e:  # noqa: BLE001
        raise Violation(f"remap_curie_prefixes({mapping!r}) raised undocumented {type(e).__name__}: {str(e)[:300]}") from e
    stats.cls("outcome:ok")
    got = dump_records(out)
    if len(mapping) > 1:
        # equal dictionaries filled in another order denote the same remapping
        other = dict(reversed(list(mapping.items())))
        try:
            again = dump_records(curies.remap_curie_prefixes(conv, other))
        except Exception as e:  # noqa: BLE001
            raise Violation(f"remap_curie_prefixes accepts {mapping!r} but raises {type(e).__name__} for the same pairs inserted in reverse order") from e
        if norm_records(again) != norm_records(got):
            raise Violation(f"remap_curie_prefixes depends on the insertion order of the dictionary: {list(mapping.items())!r} gives {norm_records(got)!r}, reversed insertion gives {norm_records(again)!r}")
    if len(got) != len(recs):
        raise Violation(f"{len(recs)} records before, {len(got)} after remapping {mapping!r}")
    by_uri = {r["uri_prefix"]: r for r in got}
    for r in recs:
        g = by_uri.get(r["uri_prefix"])
        if g is None or set(g["uri_prefix_synonyms"]) != set(r["uri_prefix_synonyms"]):
            raise Violation(f"record {r['prefix']!r} did not keep exactly its URI prefixes / canonical URI prefix under {mapping!r}: {g!r}")
    m_after = Model(got)
    known_after = set(m_after.all_prefixes())
    lost = known_before - known_after
    if lost:
        raise Violation(f"CURIE prefixes {sorted(lost)!r} were known before remapping {mapping!r} and are unknown afterwards")
    applicable = {k: v for k, v in mapping.items() if model.owner(k) is not None}
    invented = known_after - known_before - set(applicable.values())
    if invented:
        raise Violation(f"remapping {mapping!r} invented prefixes {sorted(invented)!r}")
    for u in S.boundary_uri_probes(recs, idents=("1", "a:b")):
        before, after = conv.parse_uri(u, return_none=True), out.parse_uri(u, return_none=True)
        if (before is None) != (after is None):
            raise Violation(f"URI {u!r} recognised before={before is not None}, after={after is not None}")
        if before is not None:
            if before[1] != after[1]:
                raise Violation(f"URI {u!r} compresses to identifier {after[1]!r} after remapping, {before[1]!r} before")
            lm = model.longest_match(u)
            want = by_uri[lm[1]["uri_prefix"]]["prefix"]
            if after[0] != want:
                raise Violation(f"URI {u!r} compresses under {after[0]!r}, the record owning its URI prefix is now called {want!r}")
    targets = list(mapping.values())
    for old, new in applicable.items():
        o = model.owner(old)
        g = by_uri[o["uri_prefix"]]
        if new not in known_before and targets.count(new) == 1:
            if g["prefix"] != new:
                raise Violation(f"pair {old!r}->{new!r} is applicable and {new!r} was unused, but the record is called {g['prefix']!r}")
        t = model.owner(new)
        if t is not None and t is not o and not any(model.owner(k) is t for k in mapping):
            # target belongs to another record that is itself not being renamed: neither record changes
            for rr in (o, t):
                if norm_record(by_uri[rr["uri_prefix"]]) != norm_record(rr):
                    raise Violation(f"pair {old!r}->{new!r} targets a prefix of another, un-renamed record but record {rr['prefix']!r} changed to {by_uri[rr['uri_prefix']]!r}")
    app_targets = list(applicable.values())
    if not set(mapping) & set(mapping.values()) and len(set(app_targets)) == len(app_targets):
        # exact model only where the statement determines the result: no chains, and no two applicable pairs competing for the
        # same new prefix (which of them wins depends on the processing order, which the statement leaves open)
        want = _sequential_model(recs, mapping)
        if norm_records(got) != norm_records(want):
            raise Violation(f"non-transitive remapping {mapping!r}: records {norm_records(got)!r}, sequential model {norm_records(want)!r}")
    # the result must itself be a consistent strict converter
    try:
        Converter(mk_records(copy.deepcopy(got)))
    except ValueError as e:
        raise Violation(f"result of remapping {mapping!r} is not a valid strict converter: {type(e).__name__}") from e
    # classification
    klass = None
    inter = set(mapping) & set(mapping.values())
    if inter and any(model.owner(k) is None for k in mapping if mapping[k] in inter or k in inter):
        klass = "partially-applicable-chain"
    elif inter:
        klass = "chain"
    elif any(model.owner(k) is not None and k != model.owner(k)["prefix"] for k in mapping):
        klass = "key-is-synonym"
    elif any(model.owner(v) is not None and v != model.owner(v)["prefix"] for v in mapping.values()):
        klass = "target-is-existing-synonym"
    if klass:
        stats.nontrivial({"records": recs, "mapping": case["mapping"]}, klass)


SUBS = [
    Sub(
        name="remap_curie",
        check=check,
        strategy=lambda tier: cases(tier),
        n={"quick": 2500, "thorough": 6000},
        required_classes=("outcome:ok", "input:cycle", "input:two-keys-name-one-record", "input:two-values-name-one-record",
                          "nt:chain", "nt:partially-applicable-chain", "nt:key-is-synonym", "nt:target-is-existing-synonym"),
    )
]
