"""C19 — discover returns a valid converter that compresses the URIs it learned from."""

from __future__ import annotations

from hypothesis import strategies as st

from pbt import strategies as S
from pbt.common import Stats, Sub, Violation
from pbt.sut import Converter, curies, dump_records, mk_records

PROPERTY_ID = "C19"
RULE = (
    "Generated: multisets of URIs built from a small lattice of stems x delimiters x tails (alphanumeric incl. non-ASCII "
    "alphanumerics, non-alphanumeric, empty) so that nested discovered prefixes ('x/' and 'x/a_') are common, plus arbitrary "
    "strings; delimiter lists (default, reordered, custom, multi-character); cutoffs None, 0-4; metaprefixes without ':'; "
    "optionally a pre-existing converter recognising some of the URIs; every input also permuted and with repetitions. One "
    "evaluation = one discover(...) input compared with a re-implementation of the documented algorithm and with the "
    "metamorphic relations (order / repetition invariance, converter filtering == pre-filtered input, strict "
    "reconstruction, URI prefixes end in a delimiter, sorted numbering, learned URIs compress and expand back). "
    "Non-trivial = the result has >=2 nested discovered prefixes, or a cutoff removes a prefix, or the supplied converter "
    "filters at least one URI; distinct by hash of the input. URIs starting with https://github.com and containing "
    "'issues' are excluded by construction (known finding D10) and counted."
)
ASSUMPTIONS = [
    "oracle: model_discover below (15 lines, from the docstring and the statement; cutoff means 'at least cutoff')",
    "known finding D10 (hard-coded GitHub-issues skip) is excluded from generation and re-confirmed by a directed probe",
]

STEMS = ["http://x", "http://x/a", "http://x/a_b", "http://y#b", "x", "", "https://w3.org/ns", "http://x/a/b",
         # neighbours of the known-finding region (NOT skipped by the hard-coded GitHub rule, so they must be learned)
         "https://github.com/o/r/pull", "http://github.com/o/r/issues", "https://gitlab.com/o/r/issues", "https://github.com/o/r/issue",
         # stems ending in a delimiter character: together with a multi-character delimiter this gives overlapping
         # occurrences right before the identifier ("x_" + "__" + "1" = "x___1")
         "http://x_", "http://x:", "http://x/", "urn:a/#",
         # whitespace at the edge of a URI is part of the string (what was learned from must compress, any strip() breaks it)
         "  http://x/a", "\thttp://y", "\u00a0http://x", "urn:sample"]
DELIMS_ALL = ["#", "/", "_", "-", ":", "=", "::", "__", "//", "/#/", " "]
TAILS = ["1", "2", "0001", "abc", "A1", "é", "é1", "٣", "²", "", "a-b", "a b", "a.b", "1/", "x y", "GO_1", "a#b", "p_q"]


def model_discover(uris, delimiters, cutoff, metaprefix, known):
    delims = list(delimiters) if delimiters else ["#", "/", "_"]
    groups: dict[str, set[str]] = {}
    for uri in set(uris):
        if known(uri):
            continue
        for dl in delims:
            if dl not in uri:
                continue
            head, tail = uri.rsplit(dl, 1)
            if tail.isalnum():
                groups.setdefault(head + dl, set()).add(tail)
                break
    kept = [p for p in sorted(groups) if cutoff is None or len(groups[p]) >= cutoff]
    return [(f"{metaprefix}{i}", p) for i, p in enumerate(kept, start=1)], groups


def _is_github_issue(u: str) -> bool:
    return u.startswith("https://github.com") and "issues" in u


@st.composite
def cases(draw, tier="quick"):
    big = tier == "thorough"
    n = draw(st.integers(0, 14 if big else 9))
    uris = []
    for _ in range(n):
        mode = draw(st.integers(0, 9))
        if mode == 0:
            u = draw(st.text(S.UNICODE, max_size=8))
        else:
            stem = draw(st.sampled_from(STEMS))
            dl = draw(st.sampled_from(DELIMS_ALL))
            tail = draw(st.sampled_from(TAILS))
            u = stem + dl + tail
            if mode == 1:
                u = u + draw(st.sampled_from(DELIMS_ALL)) + draw(st.sampled_from(TAILS))
        uris.append(u)
    if uris and draw(st.integers(0, 24)) == 0:
        # a large input around typical chunk sizes: the drawn URIs plus numbered siblings of the first few
        target = draw(st.sampled_from([100, 257, 1001]))
        base = [u for u in uris[:3]]
        uris = uris + [b + str(k) for k in range(target) for b in base[:1]]
    dmode = draw(st.integers(0, 3))
    if dmode == 0:
        delimiters = None
    elif dmode == 1:
        delimiters = list(draw(st.permutations(["#", "/", "_"])))
    else:
        delimiters = draw(st.lists(st.sampled_from(DELIMS_ALL), unique=True, min_size=1, max_size=4))
    if draw(st.integers(0, 5)) == 0:
        # overlapping occurrences of a multi-character delimiter right before the identifier ("x_" + "__" + "1" = "x___1"):
        # the split must be at the LAST occurrence
        dl, stem = draw(st.sampled_from([("__", "http://x_"), ("__", "http://y__a_"), ("//", "http://x/"), ("/#/", "urn:a/#"), ("::", "urn:b:")]))
        for t in draw(st.lists(st.sampled_from(["1", "abc", "A1", "22"]), unique=True, min_size=1, max_size=3)):
            uris.append(stem + dl + t)
        delimiters = [dl] + [x for x in (delimiters or []) if x != dl][:2]
    cutoff = draw(st.sampled_from([None, None, 0, 1, 2, 3, 4]))
    metaprefix = draw(st.sampled_from(["ns", "ns", "p", "", "x.", "ns1", "é", " ns", "ns\u00a0"]))
    conv = None
    if draw(st.integers(0, 2)) == 0:
        ups = draw(st.lists(st.sampled_from(["http://x/", "http://x/a_", "http://y#", "x", "https://w3.org/",
                                             # prefixes that end INSIDE an alphanumeric identifier (longer than the prefix discover would guess)
                                             "http://x/a", "http://x/A", "http://x/a_b/0", "http://y#b#a", "http://x#1", "http://z/q/E", "http://z/q#E", "http://z/q_E"]), unique=True, min_size=1, max_size=3))
        conv = [{"prefix": f"k{i}", "uri_prefix": u, "prefix_synonyms": [], "uri_prefix_synonyms": [], "pattern": None} for i, u in enumerate(ups)]
        # URIs the supplied converter recognises (they must contribute nothing - neither a prefix nor to a cutoff count)
        for u in ups:
            for _ in range(draw(st.integers(0, 2))):
                uris.append(u + draw(st.sampled_from(["1", "22", "abc", "A1", "x9"])))
        # unrecognised siblings in the SAME putative group as the recognised URIs of a prefix that ends inside an identifier
        # (so that a cutoff sees a group of which only a part may be counted)
        for u in ups:
            cut = max(u.rfind(ch) for ch in "#/_")
            if 0 <= cut < len(u) - 1 and u[cut + 1:].isalnum():
                for t in draw(st.lists(st.sampled_from(["1", "zz9", "Q5", "00"]), unique=True, max_size=3)):
                    uris.append(u[: cut + 1] + t)
    perm = list(draw(st.permutations(range(len(uris))))) if len(uris) > 1 else list(range(len(uris)))
    dup = draw(st.lists(st.integers(0, max(0, len(uris) - 1)), max_size=3)) if uris else []
    return {"uris": uris, "delimiters": delimiters, "cutoff": cutoff, "metaprefix": metaprefix, "converter": conv, "perm": perm, "dup": dup,
            "container": draw(st.sampled_from(["list", "tuple", "iterator", "generator"]))}


def _run(uris, case, conv):
    kw = {}
    if case["delimiters"] is not None:
        kw["delimiters"] = list(case["delimiters"])
    if case["cutoff"] is not None:
        kw["cutoff"] = case["cutoff"]
    kind = case.get("container", "list")
    arg = {"list": list, "tuple": tuple, "iterator": lambda x: iter(list(x)), "generator": lambda x: (u for u in list(x))}[kind](uris)
    return curies.discover(arg, metaprefix=case["metaprefix"], converter=conv, **kw)


def check(case, stats: Stats) -> None:
    stats.ev()
    uris = [u for u in case["uris"]]
    excluded = [u for u in uris if _is_github_issue(u)]
    if excluded:
        stats.exclude("github-issues-uri (known finding D10)", len(excluded))
        uris = [u for u in uris if not _is_github_issue(u)]
    conv = Converter(mk_records(case["converter"])) if case["converter"] is not None else None
    known = (lambda u: conv.is_uri(u)) if conv is not None else (lambda u: False)
    expected, groups = model_discover(uris, case["delimiters"], case["cutoff"], case["metaprefix"], known)
    result = _run(uris, case, conv)
    got = dump_records(result)
    got_pairs = sorted((r["prefix"], r["uri_prefix"]) for r in got)
    if got_pairs != sorted(expected) or any(r["prefix_synonyms"] or r["uri_prefix_synonyms"] for r in got):
        raise Violation(f"discover -> {got_pairs!r}, documented algorithm -> {sorted(expected)!r}")
    delims = list(case["delimiters"]) if case["delimiters"] else ["#", "/", "_"]
    for r in got:
        if not any(r["uri_prefix"].endswith(d) for d in delims):
            raise Violation(f"discovered URI prefix {r['uri_prefix']!r} does not end in one of the delimiters {delims!r}")
    names = [p for p, _ in sorted(expected, key=lambda t: t[1])]
    if names != [f"{case['metaprefix']}{i}" for i in range(1, len(names) + 1)]:
        raise Violation("harness: numbering of the model is not sorted")  # pragma: no cover
    by_uri = {r["uri_prefix"]: r["prefix"] for r in got}
    for i, up in enumerate(sorted(by_uri), start=1):
        if by_uri[up] != f"{case['metaprefix']}{i}":
            raise Violation(f"URI prefix {up!r} is named {by_uri[up]!r}, sorted numbering demands {case['metaprefix']}{i}")
    # strict reconstruction
    try:
        Converter(mk_records(got))
    except ValueError as e:
        raise Violation(f"discover returned records a strict converter rejects: {type(e).__name__}") from e
    # order / repetition invariance
    shuffled = [uris[i] for i in case["perm"] if i < len(uris)] if len(case["perm"]) == len(uris) else list(reversed(uris))
    shuffled += [uris[i] for i in case["dup"] if i < len(uris)]
    again = dump_records(_run(shuffled, case, conv))
    if again != got:
        raise Violation(f"discover depends on order / repetition: {got_pairs!r} vs {sorted((r['prefix'], r['uri_prefix']) for r in again)!r}")
    # converter filtering == pre-filtering
    if conv is not None:
        pre = dump_records(_run([u for u in uris if not conv.is_uri(u)], case, None))
        if pre != got:
            raise Violation("discover(U, converter=c) differs from discover({u in U: not c.is_uri(u)})")
    # learned URIs compress and expand back (no cutoff)
    if case["cutoff"] is None and ":" not in case["metaprefix"]:
        for p, luids in groups.items():
            for luid in luids:
                u = p + luid
                c = result.compress(u)
                if c is None:
                    raise Violation(f"input URI {u!r} (alphanumeric identifier after a delimiter) does not compress under the result")
                if result.expand(c) != u:
                    raise Violation(f"input URI {u!r} compresses to {c!r} which expands to {result.expand(c)!r}")
    ups = sorted(by_uri)
    klass = None
    if any(a != b and b.startswith(a) for a in ups for b in ups):
        klass = "nested-discovered-prefixes"
    elif case["cutoff"] is not None and len(groups) > len(got):
        klass = "cutoff-removes-prefix"
    elif conv is not None and any(conv.is_uri(u) for u in uris):
        klass = "converter-filters-uri"
    stats.cls("prefixes:" + ("0" if not got else "1" if len(got) == 1 else "2+"))
    if klass:
        stats.nontrivial({k: case[k] for k in ("uris", "delimiters", "cutoff", "metaprefix", "converter")}, klass)


def probe_github(stats: Stats) -> bool:
    """Known finding D10: GitHub issue URLs are skipped although the statement knows no such exception."""
    u = "https://github.com/o/r/issues/5"
    expected, _ = model_discover([u], None, None, "ns", lambda _: False)
    got = dump_records(curies.discover([u]))
    return bool(expected) and not got


KNOWN_PROBES = {"D10:github-issues-skip@discovery.py:_get_uri_prefix_to_luids": probe_github}

SUBS = [
    Sub(name="discover", check=check, strategy=lambda tier: cases(tier), n={"quick": 2500, "thorough": 6000},
        required_classes=("nt:nested-discovered-prefixes", "nt:cutoff-removes-prefix", "nt:converter-filters-uri", "prefixes:0", "prefixes:2+")),
]
