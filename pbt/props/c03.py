"""C03 — compression is lossless; compress and expand are inverse on prefix-free maps."""

from __future__ import annotations

from pbt import strategies as S
from pbt.common import Stats, Sub, Violation
from pbt.model import Model
from pbt.sut import Converter, mk_records, history_variants, mk_incremental_queried, mk_split_merge, query_everything, mk_converter

PROPERTY_ID = "C03"
RULE = (
    "Generated: strict converters with delimiter-free CURIE prefixes (incl. the empty one), in two arms: arbitrary "
    "prefix lattices and pairwise prefix-free URI prefix sets; recognised URIs are registered-prefix+identifier "
    "(identifiers may start with tails of other records' prefixes) plus boundary probes, recognised CURIEs are "
    "known-prefix+delimiter+identifier. One evaluation = one (converter, string) round trip: c=compress(u) => u in "
    "expand_all(c), expand(c)==standardize_uri(u) (==u if u was written with a canonical URI prefix), expand(c) is_uri; "
    "prefix-free arm additionally compress(expand(c))==standardize_curie(c), expand(compress(u))==standardize_uri(u) and "
    "mutual inverse on standard forms. The model is used only to decide which precondition applies. "
    "Every case is checked on the same converter reached through seven histories (built at once; grown string by string with all queries issued after every mutation; split into whole records and merged; grown by case-insensitive merges; every record re-merged into itself case-insensitively; after calls that must be rejected; as by-standing input of every derivation whose results were then mutated). "
    "Non-trivial = u written through a URI-prefix synonym, or the converter has nested URI prefixes, or the identifier "
    "starts with another registered URI prefix's tail, or (prefix-free arm) the CURIE uses a synonym prefix; distinct by "
    "hash of (records, delimiter, string)."
)
ASSUMPTIONS = [
    "round-trip / metamorphic oracle; pbt/model.py decides only which precondition (prefix-free, canonical longest match) holds",
]


def _check_on(c, case, stats: Stats) -> None:
    spec = case["spec"]
    recs, d = spec["records"], spec["delimiter"]
    model = Model(recs, d)
    pf = model.is_prefix_free()
    stats.cls("prefix-free-converters" if pf else "nested-converters")
    ups = model.all_uri_prefixes()
    for u in case["uris"]:
        stats.ev()
        cur = c.compress(u)
        if cur is None:
            stats.cls("unrecognised-uri")
            continue
        allx = c.expand_all(cur)
        if allx is None or u not in list(allx):
            raise Violation(f"compress({u!r}) = {cur!r} but {u!r} is not among expand_all({cur!r}) = {allx!r}")
        ex = c.expand(cur)
        su = c.standardize_uri(u)
        if ex != su or ex is None:
            raise Violation(f"expand(compress({u!r})) = {ex!r} differs from standardize_uri = {su!r}")
        lm = model.longest_match(u)
        if lm is not None and lm[0] == lm[1]["uri_prefix"] and ex != u:
            raise Violation(f"{u!r} is written with the canonical URI prefix {lm[0]!r} but expand(compress(u)) = {ex!r}")
        if not c.is_uri(ex):
            raise Violation(f"expand({cur!r}) = {ex!r} is not itself recognised as a URI")
        if pf:
            # bijection clause on standard forms
            cc = c.compress(ex)
            sc = c.standardize_curie(cur)
            if cc != sc or cc is None:
                raise Violation(f"prefix-free map: compress(expand({cur!r})) = {cc!r} but standardize_curie = {sc!r}")
            if c.standardize_uri(su) != su:
                raise Violation(f"prefix-free map: standardize_uri not idempotent on {su!r}")
            if c.expand(cc) != su:
                raise Violation(f"prefix-free map: expand(compress(standard uri {su!r})) = {c.expand(cc)!r}")
        klass = None
        if lm is not None and lm[0] != lm[1]["uri_prefix"]:
            klass = "via-uri-prefix-synonym"
        elif lm is not None and any(q and u[len(lm[0]):].startswith(q[-2:]) for q in ups if q != lm[0]):
            klass = "identifier-starts-with-other-prefix-tail"
        elif not pf:
            klass = "nested-map"
        if klass:
            stats.nontrivial({"records": recs, "delimiter": d, "uri": u}, klass)
    for s in case["curies"]:
        stats.ev()
        ex = c.expand(s)
        if ex is None:
            stats.cls("unrecognised-curie")
            continue
        if not c.is_uri(ex):
            raise Violation(f"expand({s!r}) = {ex!r} is not compressible by the same converter")
        back = c.compress(ex)
        allx = c.expand_all(back)
        if allx is None or ex not in list(allx):
            raise Violation(f"compress(expand({s!r})) = {back!r} does not expand back to {ex!r}")
        if pf:
            sc = c.standardize_curie(s)
            if back != sc:
                raise Violation(f"prefix-free map: compress(expand({s!r})) = {back!r} but standardize_curie({s!r}) = {sc!r}")
            if c.expand(sc) != ex:
                raise Violation(f"prefix-free map: expand(standardize_curie({s!r})) = {c.expand(sc)!r} != expand = {ex!r}")
            if c.standardize_uri(ex) != ex:
                raise Violation(f"prefix-free map: expand({s!r}) = {ex!r} is not a standard URI")
            pc = model.parse_curie(s)
            if pc not in (None, "NODELIM") and pc[0] != s.partition(d)[0]:
                stats.nontrivial({"records": recs, "delimiter": d, "curie": s}, "prefix-free-synonym-curie")



def check(case, stats: Stats) -> None:
    spec = case["spec"]
    _check_on(mk_converter(spec), case, stats)
    # the same laws on the same converter reached through every other history (grown string by string with all queries
    # issued after every mutation, merged from whole records, case-insensitive merges, by-standing input of derivations)
    for how, conv in history_variants(spec, lambda c: query_everything(c, case["uris"] + case["curies"], ()), base=False):
        try:
            _check_on(conv, case, Stats())
        except Violation as v:
            v.message = f"[converter {how}] " + v.message
            raise


def _wrongly_accepted(spec):
    """Collections that a strict constructor MUST refuse (one CURIE name claimed by two records that are not neighbours in any
    sort order of the names). On a correct tree every attempt raises and nothing is checked; a converter that comes into being
    nevertheless is a strict converter, and the laws of this property are checked on it as on any other."""
    recs = spec["records"]
    d = spec.get("delimiter", ":")
    out = []
    if len(recs) >= 3:
        for i, j in ((0, len(recs) - 1), (len(recs) - 1, 0), (0, len(recs) // 2)):
            if i == j:
                continue
            clash = [dict(r, prefix_synonyms=list(r["prefix_synonyms"]), uri_prefix_synonyms=list(r["uri_prefix_synonyms"])) for r in recs]
            name = recs[j]["prefix"]
            if name in [clash[i]["prefix"], *clash[i]["prefix_synonyms"]]:
                continue
            clash[i]["prefix_synonyms"].append(name)
            try:
                out.append((f"strict converter wrongly constructed although {name!r} is claimed by records {i} and {j}", Converter(mk_records(clash), delimiter=d)))
            except ValueError:
                pass
    return out


_plain_check = check


def check(case, stats: Stats) -> None:  # noqa: F811
    _plain_check(case, stats)
    for how, conv in _wrongly_accepted(case["spec"]):
        try:
            # only the URIs: every registered URI prefix still has one owner, so the round-trip laws are well defined
            _check_on(conv, dict(case, curies=[]), Stats())
        except Violation as v:
            v.message = f"[{how}] " + v.message
            raise
        stats.cls("wrongly-accepted-collection-survived-the-laws")


SUBS = [
    Sub(
        name="roundtrip",
        check=check,
        strategy=lambda tier: S.scalar_cases(tier),
        n={"quick": 1200, "thorough": 3000},
        required_classes=("prefix-free-converters", "nested-converters", "nt:via-uri-prefix-synonym", "nt:prefix-free-synonym-curie"),
    )
]
