#!/venv/bin/python
"""Coverage-guided fuzz target (atheris / libFuzzer) for the string-level API — thorough tier only (DESIGN.md §8).

The bytes are decoded with a FuzzedDataProvider into (converter spec from small token pools, probe strings assembled from
registered prefixes, truncated prefixes, delimiters and raw text); the SAME oracle as the Hypothesis check of the chosen
property (C01 longest-match model, C07 derived-operation equivalences, C08 mode relation) runs inside the target, so a
"crash" is a property violation, not merely an exception.

usage: fuzz_scalar.py --prop C01 [libFuzzer flags] [corpus dirs]
       fuzz_scalar.py --prop C01 --decode <file>     print the decoded case as JSON (used to build the replay file)
"""
from __future__ import annotations

import json
import os
import sys
from pathlib import Path

VERIF = Path(__file__).resolve().parent.parent
REPO = Path(os.environ.get("VERIF_REPO", "/repo")).resolve()
sys.path.insert(0, str(REPO / "src"))
sys.path.insert(1, str(VERIF))
if (VERIF / ".deps").is_dir():
    sys.path.append(str(VERIF / ".deps"))

import atheris  # noqa: E402

with atheris.instrument_imports(include=["curies", "pytrie"]):
    import curies  # noqa: E402,F401

from pbt.common import Stats, Violation  # noqa: E402

DELIMS = [":", ":", "/", "_", "::", "|"]
P_TOK = ["a", "b", "A", "ab", "", "GO", "go", "é", "http", "a.b", "1"]
U_TOK = ["", "u/", "u/a", "u/a_", "U/", "v#", "http://", "http://x/", "http://x/a_", "a:", "GO:", "é/", "/", "#", ":"]
TAIL = ["", "1", "a", "/", ":", "_", "#", "1/2", "a:b", " ", "é", "\n", "x y"]


def decode(data: bytes) -> dict:
    fdp = atheris.FuzzedDataProvider(data)
    d = DELIMS[fdp.ConsumeIntInRange(0, len(DELIMS) - 1)]
    n = fdp.ConsumeIntInRange(0, 4)
    used_p, used_u, recs = set(), set(), []
    ptoks = [p for p in P_TOK if not any(ch in p for ch in d)]
    for _ in range(n):
        p = ptoks[fdp.ConsumeIntInRange(0, len(ptoks) - 1)]
        u = U_TOK[fdp.ConsumeIntInRange(0, len(U_TOK) - 1)] + TAIL[fdp.ConsumeIntInRange(0, 4)]
        if p in used_p or u in used_u:
            continue
        ps, us = [], []
        for _ in range(fdp.ConsumeIntInRange(0, 2)):
            x = ptoks[fdp.ConsumeIntInRange(0, len(ptoks) - 1)]
            if x != p and x not in used_p and x not in ps:
                ps.append(x)
        for _ in range(fdp.ConsumeIntInRange(0, 2)):
            x = U_TOK[fdp.ConsumeIntInRange(0, len(U_TOK) - 1)] + TAIL[fdp.ConsumeIntInRange(0, 4)]
            if x != u and x not in used_u and x not in us:
                us.append(x)
        used_p |= {p, *ps}
        used_u |= {u, *us}
        recs.append({"prefix": p, "uri_prefix": u, "prefix_synonyms": ps, "uri_prefix_synonyms": us, "pattern": None})
    strings = []
    for _ in range(fdp.ConsumeIntInRange(1, 3)):
        parts = []
        for _ in range(fdp.ConsumeIntInRange(0, 4)):
            k = fdp.ConsumeIntInRange(0, 5)
            if k == 0 and used_u:
                parts.append(sorted(used_u)[fdp.ConsumeIntInRange(0, len(used_u) - 1)])
            elif k == 1 and used_p:
                parts.append(sorted(used_p)[fdp.ConsumeIntInRange(0, len(used_p) - 1)] + d)
            elif k == 2:
                parts.append(TAIL[fdp.ConsumeIntInRange(0, len(TAIL) - 1)])
            elif k == 3:
                parts.append(d)
            elif k == 4 and used_u:
                u = sorted(used_u)[fdp.ConsumeIntInRange(0, len(used_u) - 1)]
                parts.append(u[: fdp.ConsumeIntInRange(0, len(u))])
            else:
                parts.append(fdp.ConsumeUnicodeNoSurrogates(4))
        strings.append("".join(parts))
    nrec = len(recs)
    return {"delimiter": d, "records": recs, "strings": strings, "perm_seed": fdp.ConsumeIntInRange(0, 23), "n": nrec}


def to_case(prop: str, dec: dict) -> dict:
    spec = {"delimiter": dec["delimiter"], "records": dec["records"]}
    n = dec["n"]
    if prop == "C01":
        import itertools

        perms = list(itertools.permutations(range(n))) if n <= 4 else [tuple(range(n))]
        p1 = list(perms[dec["perm_seed"] % len(perms)]) if perms else []
        p2 = list(perms[(dec["perm_seed"] * 7 + 3) % len(perms)]) if perms else []
        return {"spec": spec, "perm1": p1, "perm2": p2, "probes": dec["strings"]}
    if prop == "C07":
        return {"spec": spec, "curies": dec["strings"], "uris": [], "pairs": []}
    if prop == "C08":
        pairs = []
        for s in dec["strings"]:
            head, _, tail = s.partition(dec["delimiter"])
            pairs.append([head, tail])
        return {"spec": spec, "strings": dec["strings"], "pairs": pairs}
    raise SystemExit(f"no fuzz oracle for {prop}")


def main():
    argv = list(sys.argv)
    prop = "C01"
    if "--prop" in argv:
        i = argv.index("--prop")
        prop = argv[i + 1]
        del argv[i:i + 2]
    if "--decode" in argv:
        i = argv.index("--decode")
        data = Path(argv[i + 1]).read_bytes()
        print(json.dumps(to_case(prop, decode(data))))
        return
    import importlib

    mod = importlib.import_module(f"pbt.props.{prop.lower()}")
    check = mod.SUBS[0].check
    stats = Stats()

    def one(data: bytes):
        case = to_case(prop, decode(data))
        check(case, stats)  # raises Violation -> libFuzzer records the input as a crash
        if len(stats.nt) > 200000:  # keep memory bounded; counts are reported by libFuzzer itself
            stats.nt.clear()

    atheris.Setup(argv, one)
    atheris.Fuzz()


if __name__ == "__main__":
    main()
