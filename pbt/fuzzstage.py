"""Thorough-tier atheris stage (DESIGN.md §8): runs pbt/fuzz_scalar.py campaigns as subprocesses, with an empty corpus and
with a small structured seed corpus, pinned by -seed/-runs; a crash input is decoded, re-checked in-process through the
Hypothesis-free check function and reported as a normal Violation (so the replay file is a plain JSON case).
If atheris cannot be imported the stage is skipped and the evidence says so - it never turns into a failure."""
from __future__ import annotations

import json
import os
import re
import shutil
import subprocess
import sys
import tempfile
from pathlib import Path

from pbt.common import HarnessError, Stats, Sub, Violation

VERIF = Path(__file__).resolve().parent.parent
SCRIPT = VERIF / "pbt" / "fuzz_scalar.py"


def _available() -> bool:
    env = dict(os.environ, PYTHONPATH=str(VERIF / ".deps"))
    return subprocess.run([sys.executable, "-c", "import atheris"], env=env, capture_output=True).returncode == 0


def atheris_sub(prop: str, main_check, runs: int = 150_000, campaigns: int = 6) -> Sub:
    def custom(tier: str, seed: int, stats: Stats) -> None:
        if tier != "thorough":
            return
        if not _available():
            stats.extra["atheris"] = "unavailable (import failed); stage skipped"
            return
        tmp = Path(tempfile.mkdtemp(prefix="curies-fuzz-"))
        try:
            procs = []
            for k in range(campaigns):
                corpus = tmp / f"corpus{k}"
                corpus.mkdir()
                if k % 2 == 1:  # structured seed corpus (the empty corpus is tried too)
                    for j in range(12):
                        (corpus / f"s{j}").write_bytes(bytes(((j * 37 + i * (k + 3)) % 251 for i in range(48))))
                art = tmp / f"art{k}"
                art.mkdir()
                cmd = [sys.executable, str(SCRIPT), "--prop", prop, f"-runs={runs}", f"-seed={(seed * 131 + k) % (2**31 - 1) + 1}", "-max_len=96",
                       "-print_final_stats=1", f"-artifact_prefix={art}/", str(corpus)]
                procs.append((k, art, subprocess.Popen(cmd, stdout=subprocess.DEVNULL, stderr=subprocess.PIPE, text=True, cwd=tmp)))
            total = 0
            crash = None
            for k, art, p in procs:
                _, err = p.communicate()
                m = re.search(r"number_of_executed_units:\s*(\d+)", err or "")
                total += int(m.group(1)) if m else 0
                if p.returncode != 0:
                    files = sorted(art.glob("crash-*"))
                    if files and crash is None:
                        crash = files[0].read_bytes()
                    elif not files and "Violation" not in (err or ""):
                        raise HarnessError(f"atheris campaign {k} failed without a crash artifact: {(err or '')[-400:]}")
            stats.extra["atheris"] = f"{campaigns} campaigns x {runs} runs (half with an empty corpus), property oracle inside the target"
            stats.extra["atheris_executions"] = total
            stats.evaluations += total
            if crash is not None:
                f = tmp / "crash.bin"
                f.write_bytes(crash)
                out = subprocess.run([sys.executable, str(SCRIPT), "--prop", prop, "--decode", str(f)], capture_output=True, text=True)
                case = json.loads(out.stdout)
                try:
                    main_check(case, Stats())
                except Violation as v:
                    v.case = case
                    v.message = "[found by atheris] " + v.message
                    raise
                raise HarnessError("atheris reported a crash that does not reproduce through the check function")
        finally:
            shutil.rmtree(tmp, ignore_errors=True)

    return Sub(name="atheris", kind="custom", check=main_check, custom=custom, sharded=False)
