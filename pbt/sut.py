"""Thin adapters between JSON specs and the code under test (curies)."""

from __future__ import annotations

import copy
from typing import Any

import curies
from curies import Converter, Record


def mk_record(r: dict) -> Record:
    return Record(
        prefix=r["prefix"],
        uri_prefix=r["uri_prefix"],
        prefix_synonyms=list(r.get("prefix_synonyms", [])),
        uri_prefix_synonyms=list(r.get("uri_prefix_synonyms", [])),
        pattern=r.get("pattern"),
    )


def mk_records(rs: list[dict]) -> list[Record]:
    return [mk_record(r) for r in rs]


def mk_converter(spec: dict, **kw: Any) -> Converter:
    return Converter(mk_records(spec["records"]), delimiter=spec.get("delimiter", ":"), **kw)


def dump_record(r: Record) -> dict:
    return {
        "prefix": str(r.prefix),
        "uri_prefix": str(r.uri_prefix),
        "prefix_synonyms": [str(x) for x in r.prefix_synonyms],
        "uri_prefix_synonyms": [str(x) for x in r.uri_prefix_synonyms],
        "pattern": r.pattern,
    }


def dump_records(c: Converter) -> list[dict]:
    return [dump_record(r) for r in c.records]


def call(fn, *a, **kw):
    """Run fn; return ("ok", value) or ("exc", exception)."""
    try:
        return ("ok", fn(*a, **kw))
    except Exception as e:  # noqa: BLE001
        return ("exc", e)


def trie_items(c: Converter) -> dict:
    return dict(c.trie.items())


def lookup_snapshot(c: Converter) -> dict:
    """The public lookup structures of a converter as plain data."""
    return {
        "prefix_map": dict(c.prefix_map),
        "synonym_to_prefix": dict(getattr(c, "synonym_to_prefix", {})),
        "reverse_prefix_map": dict(c.reverse_prefix_map),
        "trie": trie_items(c),
        "pattern_map": dict(c.pattern_map),
    }


def deep_observation(c: Converter, curie_probes: list[str], uri_probes: list[str]) -> dict:
    """Everything a user can observe about a converter (records, views, query answers)."""

    def q(fn, x):
        t, v = call(fn, x)
        return v if t == "ok" else "EXC:" + type(v).__name__

    return {
        "records": copy.deepcopy(dump_records(c)),
        "prefixes": sorted(c.get_prefixes()),
        "prefixes_syn": sorted(c.get_prefixes(include_synonyms=True)),
        "uri_prefixes": sorted(c.get_uri_prefixes()),
        "uri_prefixes_syn": sorted(c.get_uri_prefixes(include_synonyms=True)),
        "bimap": dict(c.bimap),
        "reverse_bimap": dict(c.reverse_bimap),
        "lookups": lookup_snapshot(c),
        "expand": {s: q(c.expand, s) for s in curie_probes},
        "expand_all": {s: q(c.expand_all, s) for s in curie_probes},
        "std_curie": {s: q(c.standardize_curie, s) for s in curie_probes},
        "compress": {u: q(c.compress, u) for u in uri_probes},
        "std_uri": {u: q(c.standardize_uri, u) for u in uri_probes},
    }


__all__ = ["curies", "Converter", "Record", "mk_record", "mk_records", "mk_converter", "dump_record", "dump_records", "call", "lookup_snapshot", "deep_observation", "trie_items"]
