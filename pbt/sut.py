"""Thin adapters between JSON specs and the code under test (curies)."""

from __future__ import annotations

import copy
from typing import Any

import curies
from curies import Converter, Record


def mk_record(r: dict) -> Record:
    return Record(
        prefix=r["prefix"],
        uri_prefix=r["uri_prefix"],
        prefix_synonyms=list(r.get("prefix_synonyms", [])),
        uri_prefix_synonyms=list(r.get("uri_prefix_synonyms", [])),
        pattern=r.get("pattern"),
    )


def mk_bare_record(prefix: str, uri_prefix: str, pattern=None) -> Record:
    """A Record created the way everyday code does it: only the fields that are given are passed (so pydantic's
    fields-set bookkeeping differs from a record whose synonym lists were passed explicitly)."""
    kw = {"prefix": prefix, "uri_prefix": uri_prefix}
    if pattern is not None:
        kw["pattern"] = pattern
    return Record(**kw)


def mk_records(rs: list[dict]) -> list[Record]:
    return [mk_record(r) for r in rs]


def mk_converter(spec: dict, **kw: Any) -> Converter:
    return Converter(mk_records(spec["records"]), delimiter=spec.get("delimiter", ":"), **kw)


def dump_record(r: Record) -> dict:
    return {
        "prefix": str(r.prefix),
        "uri_prefix": str(r.uri_prefix),
        "prefix_synonyms": [str(x) for x in r.prefix_synonyms],
        "uri_prefix_synonyms": [str(x) for x in r.uri_prefix_synonyms],
        "pattern": r.pattern,
    }


def dump_records(c: Converter) -> list[dict]:
    return [dump_record(r) for r in c.records]


def call(fn, *a, **kw):
    """Run fn; return ("ok", value) or ("exc", exception)."""
    try:
        return ("ok", fn(*a, **kw))
    except Exception as e:  # noqa: BLE001
        return ("exc", e)


def trie_items(c: Converter) -> dict:
    return dict(c.trie.items())


def lookup_snapshot(c: Converter) -> dict:
    """The public lookup structures of a converter as plain data."""
    return {
        "prefix_map": dict(c.prefix_map),
        "synonym_to_prefix": dict(getattr(c, "synonym_to_prefix", {})),
        "reverse_prefix_map": dict(c.reverse_prefix_map),
        "trie": trie_items(c),
        "pattern_map": dict(c.pattern_map),
    }


def deep_observation(c: Converter, curie_probes: list[str], uri_probes: list[str]) -> dict:
    """Everything a user can observe about a converter (records, views, query answers)."""

    def q(fn, x):
        t, v = call(fn, x)
        return v if t == "ok" else "EXC:" + type(v).__name__

    return {
        "records": copy.deepcopy(dump_records(c)),
        "prefixes": sorted(c.get_prefixes()),
        "prefixes_syn": sorted(c.get_prefixes(include_synonyms=True)),
        "uri_prefixes": sorted(c.get_uri_prefixes()),
        "uri_prefixes_syn": sorted(c.get_uri_prefixes(include_synonyms=True)),
        "bimap": dict(c.bimap),
        "reverse_bimap": dict(c.reverse_bimap),
        "lookups": lookup_snapshot(c),
        "expand": {s: q(c.expand, s) for s in curie_probes},
        "expand_all": {s: q(c.expand_all, s) for s in curie_probes},
        "std_curie": {s: q(c.standardize_curie, s) for s in curie_probes},
        "compress": {u: q(c.compress, u) for u in uri_probes},
        "std_uri": {u: q(c.standardize_uri, u) for u in uri_probes},
    }




def mk_incremental_queried(spec: dict, order, queries, case_sensitive: bool = True) -> Converter:
    """Build the converter of ``spec`` incrementally, calling ``queries(converter)`` after every single mutation.

    Records are added in ``order``; a record with synonyms is added as its bare canonical pair first and then completed by
    add_record(merge=True) calls, one synonym at a time, so that every new string enters through the merge path too.
    The interleaved queries make history-dependent state (result caches, lazily built indexes) observable: the final
    converter must still answer like one built in one go."""
    d = spec.get("delimiter", ":")
    recs = spec["records"]
    c = Converter([], delimiter=d)
    queries(c)
    for i in order:
        r = recs[i]
        c.add_record(mk_bare_record(r["prefix"], r["uri_prefix"], r.get("pattern")))
        queries(c)
        for syn in r["prefix_synonyms"]:
            c.add_prefix(syn, r["uri_prefix"], merge=True, case_sensitive=case_sensitive)
            queries(c)
        for syn in r["uri_prefix_synonyms"]:
            c.add_record(mk_bare_record(r["prefix"], syn), merge=True, case_sensitive=case_sensitive)
            queries(c)
    return c


def query_everything(c: Converter, strings, pairs=()) -> None:
    """Call every scalar query method in default mode on every string / pair and ignore the answers (and exceptions).

    Used between the mutations of mk_incremental_queried so that any result cache or lazily built index is populated
    with answers that later mutations invalidate."""
    import warnings

    fns = [c.compress, c.expand, c.compress_or_standardize, c.expand_or_standardize, c.standardize_prefix, c.standardize_curie,
           c.standardize_uri, c.expand_all, c.parse_curie, c.is_uri, c.is_curie, c.get_record,
           lambda s: c.parse(s, strict=False), lambda s: c.parse_uri(s, return_none=True)]
    with warnings.catch_warnings():
        warnings.simplefilter("ignore")
        for s in strings:
            for fn in fns:
                try:
                    fn(s)
                except Exception:  # noqa: BLE001
                    pass
        for p, i in pairs:
            for fn in (c.expand_pair, c.expand_pair_all, c.format_curie):
                try:
                    fn(p, i)
                except Exception:  # noqa: BLE001
                    pass
            try:
                c.standardize_prefix(p)
                c.get_record(p)
            except Exception:  # noqa: BLE001
                pass


BUILD_MODES = ["at-once", "at-once", "incremental", "chain", "split-merge"]


def mk_converter_via(spec: dict, mode: str = "at-once") -> Converter:
    """The converter denoted by ``spec`` reached through different histories (all must be equivalent, C05/C09):

    * at-once      Converter(records)
    * incremental  empty converter + add_record / add_prefix(merge=True), one string at a time (every synonym arrives
                   through the merge path, so records start without synonyms and grow by in-place appends)
    * chain        chain() of one converter holding the bare canonical pairs and further converters each contributing one
                   synonym (only for the default delimiter, since chain does not propagate a delimiter)
    """
    d = spec.get("delimiter", ":")
    if mode == "split-merge":
        return mk_split_merge(spec)
    if mode == "incremental" or (mode == "chain" and d != ":"):
        return mk_incremental_queried(spec, range(len(spec["records"])), lambda c: None)
    if mode == "chain":
        recs = spec["records"]
        base = Converter([mk_bare_record(r["prefix"], r["uri_prefix"], r.get("pattern")) for r in recs])
        extra = []
        for r in recs:
            for syn in r["prefix_synonyms"]:
                extra.append(Converter([mk_bare_record(syn, r["uri_prefix"])]))
            for syn in r["uri_prefix_synonyms"]:
                extra.append(Converter([mk_bare_record(r["prefix"], syn)]))
        return curies.chain([base, *extra]) if extra or recs else Converter([])
    return mk_converter(spec)


def mk_split_merge(spec: dict) -> Converter:
    """Every record with a prefix synonym is split into two whole records that are merged again by add_record(merge=True):
    R1 keeps the canonical values and every other synonym, R2 is *named after one of the prefix synonyms*, shares R1's
    canonical URI prefix (so it matches exactly R1) and brings the remaining synonyms as its own synonyms. The merged
    result denotes the same records as ``spec`` - but the incoming record has a different canonical prefix and synonyms
    of its own, which is the shape index-maintenance shortcuts get wrong."""
    d = spec.get("delimiter", ":")
    firsts, seconds = [], []
    for r in spec["records"]:
        ps, us = list(r["prefix_synonyms"]), list(r["uri_prefix_synonyms"])
        if not ps:
            firsts.append(mk_record(r))
            continue
        firsts.append(mk_record({"prefix": r["prefix"], "uri_prefix": r["uri_prefix"], "prefix_synonyms": ps[1::2], "uri_prefix_synonyms": us[0::2], "pattern": r.get("pattern")}))
        seconds.append(mk_record({"prefix": ps[0], "uri_prefix": r["uri_prefix"], "prefix_synonyms": ps[2::2], "uri_prefix_synonyms": us[1::2]}))
    c = Converter(firsts, delimiter=d)
    for r2 in seconds:
        c.add_record(r2, merge=True)
    return c


def case_insensitive_build_is_equivalent(spec: dict) -> bool:
    """True if no two strings of DIFFERENT records are equal up to case (on the same side): then growing the converter with
    case_sensitive=False merges must denote exactly the same records as the case-sensitive build."""
    for side in ("prefix", "uri_prefix"):
        seen = {}
        for i, r in enumerate(spec["records"]):
            for x in [r[side], *r[side + "_synonyms"]]:
                if seen.setdefault(x.casefold(), i) != i:
                    return False
    return True
