"""Thin adapters between JSON specs and the code under test (curies)."""

from __future__ import annotations

import copy
from typing import Any

import curies
from curies import Converter, Record


def mk_record(r: dict) -> Record:
    """The Record a spec entry denotes. Half of the entries (decided by the lengths of their canonical strings, so that it
    is a pure function of the case) are created the way a plain prefix map creates them - empty synonym lists and a missing
    pattern are NOT passed, so pydantic treats those fields as unset - the other half with every field passed explicitly."""
    kw = {"prefix": r["prefix"], "uri_prefix": r["uri_prefix"]}
    explicit = (len(r["prefix"]) + len(r["uri_prefix"])) % 2 == 0
    if explicit or r.get("prefix_synonyms"):
        kw["prefix_synonyms"] = list(r.get("prefix_synonyms", []))
    if explicit or r.get("uri_prefix_synonyms"):
        kw["uri_prefix_synonyms"] = list(r.get("uri_prefix_synonyms", []))
    if explicit or r.get("pattern") is not None:
        kw["pattern"] = r.get("pattern")
    return Record(**kw)


def mk_bare_record(prefix: str, uri_prefix: str, pattern=None) -> Record:
    """A Record created the way everyday code does it: only the fields that are given are passed (so pydantic's
    fields-set bookkeeping differs from a record whose synonym lists were passed explicitly)."""
    kw = {"prefix": prefix, "uri_prefix": uri_prefix}
    if pattern is not None:
        kw["pattern"] = pattern
    return Record(**kw)


def mk_records(rs: list[dict]) -> list[Record]:
    return [mk_record(r) for r in rs]


def mk_converter(spec: dict, **kw: Any) -> Converter:
    return Converter(mk_records(spec["records"]), delimiter=spec.get("delimiter", ":"), **kw)


def dump_record(r: Record) -> dict:
    return {
        "prefix": str(r.prefix),
        "uri_prefix": str(r.uri_prefix),
        "prefix_synonyms": [str(x) for x in r.prefix_synonyms],
        "uri_prefix_synonyms": [str(x) for x in r.uri_prefix_synonyms],
        "pattern": r.pattern,
    }


def dump_records(c: Converter) -> list[dict]:
    return [dump_record(r) for r in c.records]


def call(fn, *a, **kw):
    """Run fn; return ("ok", value) or ("exc", exception)."""
    try:
        return ("ok", fn(*a, **kw))
    except Exception as e:  # noqa: BLE001
        return ("exc", e)


def trie_items(c: Converter) -> dict:
    return dict(c.trie.items())


def lookup_snapshot(c: Converter) -> dict:
    """The public lookup structures of a converter as plain data."""
    return {
        "prefix_map": dict(c.prefix_map),
        "synonym_to_prefix": dict(getattr(c, "synonym_to_prefix", {})),
        "reverse_prefix_map": dict(c.reverse_prefix_map),
        "trie": trie_items(c),
        "pattern_map": dict(c.pattern_map),
    }


def deep_observation(c: Converter, curie_probes: list[str], uri_probes: list[str]) -> dict:
    """Everything a user can observe about a converter (records, views, query answers)."""

    def q(fn, x):
        t, v = call(fn, x)
        return v if t == "ok" else "EXC:" + type(v).__name__

    return {
        "records": copy.deepcopy(dump_records(c)),
        "prefixes": sorted(c.get_prefixes()),
        "prefixes_syn": sorted(c.get_prefixes(include_synonyms=True)),
        "uri_prefixes": sorted(c.get_uri_prefixes()),
        "uri_prefixes_syn": sorted(c.get_uri_prefixes(include_synonyms=True)),
        "bimap": dict(c.bimap),
        "reverse_bimap": dict(c.reverse_bimap),
        "lookups": lookup_snapshot(c),
        "expand": {s: q(c.expand, s) for s in curie_probes},
        "expand_all": {s: q(c.expand_all, s) for s in curie_probes},
        "std_curie": {s: q(c.standardize_curie, s) for s in curie_probes},
        "compress": {u: q(c.compress, u) for u in uri_probes},
        "std_uri": {u: q(c.standardize_uri, u) for u in uri_probes},
    }




def mk_incremental_queried(spec: dict, order, queries, case_sensitive: bool = True, repeat: int = 1) -> Converter:
    """Build the converter of ``spec`` incrementally, calling ``queries(converter)`` after every single mutation.

    Records are added in ``order``; a record with synonyms is added as its bare canonical pair first and then completed by
    add_record(merge=True) calls, one synonym at a time, so that every new string enters through the merge path too.
    The interleaved queries make history-dependent state (result caches, lazily built indexes) observable: the final
    converter must still answer like one built in one go."""
    d = spec.get("delimiter", ":")
    recs = spec["records"]
    c = Converter([], delimiter=d)
    queries(c)
    for i in order:
        r = recs[i]
        # the brand-new pair arrives with the same flag as the merges (callers guarantee that no two different records are
        # equal up to case, so the flag changes nothing about what is denoted)
        c.add_record(mk_bare_record(r["prefix"], r["uri_prefix"], r.get("pattern")), **({} if case_sensitive else {"case_sensitive": False}))
        queries(c)
        # with repeat > 1 every string arrives several times through the merge path (the later arrivals bring nothing new and
        # must change nothing - in particular they must not be registered twice)
        for _ in range(repeat):
            for syn in r["prefix_synonyms"]:
                c.add_prefix(syn, r["uri_prefix"], merge=True, case_sensitive=case_sensitive)
                queries(c)
            for syn in r["uri_prefix_synonyms"]:
                c.add_record(mk_bare_record(r["prefix"], syn), merge=True, case_sensitive=case_sensitive)
                queries(c)
    return c


def query_everything(c: Converter, strings, pairs=()) -> None:
    """Call every scalar query method in default mode on every string / pair and ignore the answers (and exceptions).

    Used between the mutations of mk_incremental_queried so that any result cache or lazily built index is populated
    with answers that later mutations invalidate."""
    import warnings

    fns = [c.compress, c.expand, c.compress_or_standardize, c.expand_or_standardize, c.standardize_prefix, c.standardize_curie,
           c.standardize_uri, c.expand_all, c.parse_curie, c.is_uri, c.is_curie, c.get_record,
           lambda s: c.parse(s, strict=False), lambda s: c.parse_uri(s, return_none=True)]
    with warnings.catch_warnings():
        warnings.simplefilter("ignore")
        for s in strings:
            for fn in fns:
                try:
                    fn(s)
                except Exception:  # noqa: BLE001
                    pass
        for p, i in pairs:
            for fn in (c.expand_pair, c.expand_pair_all, c.format_curie):
                try:
                    fn(p, i)
                except Exception:  # noqa: BLE001
                    pass
            try:
                c.standardize_prefix(p)
                c.get_record(p)
            except Exception:  # noqa: BLE001
                pass


BUILD_MODES = ["at-once", "at-once", "incremental", "chain", "split-merge"]


def mk_converter_via(spec: dict, mode: str = "at-once") -> Converter:
    """The converter denoted by ``spec`` reached through different histories (all must be equivalent, C05/C09):

    * at-once      Converter(records)
    * incremental  empty converter + add_record / add_prefix(merge=True), one string at a time (every synonym arrives
                   through the merge path, so records start without synonyms and grow by in-place appends)
    * chain        chain() of one converter holding the bare canonical pairs and further converters each contributing one
                   synonym (only for the default delimiter, since chain does not propagate a delimiter)
    """
    d = spec.get("delimiter", ":")
    if mode == "split-merge":
        return mk_split_merge(spec)
    if mode == "incremental" or (mode == "chain" and d != ":"):
        return mk_incremental_queried(spec, range(len(spec["records"])), lambda c: None)
    if mode == "chain":
        recs = spec["records"]
        base = Converter([mk_bare_record(r["prefix"], r["uri_prefix"], r.get("pattern")) for r in recs])
        extra = []
        for r in recs:
            for syn in r["prefix_synonyms"]:
                extra.append(Converter([mk_bare_record(syn, r["uri_prefix"])]))
            for syn in r["uri_prefix_synonyms"]:
                extra.append(Converter([mk_bare_record(r["prefix"], syn)]))
        return curies.chain([base, *extra]) if extra or recs else Converter([])
    return mk_converter(spec)


def mk_split_merge(spec: dict) -> Converter:
    """Every record with a prefix synonym is split into two whole records that are merged again by add_record(merge=True):
    R1 keeps the canonical values and every other synonym, R2 is *named after one of the prefix synonyms*, shares R1's
    canonical URI prefix (so it matches exactly R1) and brings the remaining synonyms as its own synonyms. The merged
    result denotes the same records as ``spec`` - but the incoming record has a different canonical prefix and synonyms
    of its own, which is the shape index-maintenance shortcuts get wrong."""
    d = spec.get("delimiter", ":")
    firsts, seconds = [], []
    for r in spec["records"]:
        # (a synonym listed twice is split as if listed once: the two halves must not name themselves)
        ps, us = list(dict.fromkeys(r["prefix_synonyms"])), list(dict.fromkeys(r["uri_prefix_synonyms"]))
        if not ps:
            firsts.append(mk_record(r))
            continue
        firsts.append(mk_record({"prefix": r["prefix"], "uri_prefix": r["uri_prefix"], "prefix_synonyms": ps[1::2], "uri_prefix_synonyms": us[0::2], "pattern": r.get("pattern")}))
        seconds.append(mk_record({"prefix": ps[0], "uri_prefix": r["uri_prefix"], "prefix_synonyms": ps[2::2], "uri_prefix_synonyms": us[1::2]}))
    c = Converter(firsts, delimiter=d)
    for r2 in seconds:
        c.add_record(r2, merge=True)
    return c


def case_insensitive_build_is_equivalent(spec: dict) -> bool:
    """True if no two strings of DIFFERENT records are equal up to case (on the same side): then growing the converter with
    case_sensitive=False merges must denote exactly the same records as the case-sensitive build."""
    for side in ("prefix", "uri_prefix"):
        seen = {}
        for i, r in enumerate(spec["records"]):
            for x in [r[side], *r[side + "_synonyms"]]:
                if seen.setdefault(x.casefold(), i) != i:
                    return False
    return True


def _fresh(taken: set, stem: str, forbidden: str = "") -> str:
    """A string that is not in ``taken`` and does not contain ``forbidden`` (deterministic; registers it in ``taken``)."""
    i = 0
    while True:
        cand = f"{stem}{i}"
        i += 1
        if cand not in taken and (not forbidden or forbidden not in cand):
            taken.add(cand)
            return cand


def mk_bystander(spec: dict) -> Converter:
    """The converter of ``spec`` built at once and then *used as an input* of every derivation (chain in both positions,
    get_subconverter, remap_curie_prefixes with applicable / inapplicable / empty remappings, remap_uri_prefixes, rewire,
    discover) - several of them twice - whose results are afterwards mutated by add_record(merge=True) calls that bring
    new synonyms into every inherited record. None of that may change what the original denotes (C10), so it must still
    answer exactly like ``Converter(records)``. Exceptions raised by the by-standing operations are not this helper's
    business and are ignored."""
    d = spec.get("delimiter", ":")
    recs = spec["records"]
    c = mk_converter(spec)
    taken_p = {x for r in recs for x in [r["prefix"], *r["prefix_synonyms"]]}
    taken_u = {x for r in recs for x in [r["uri_prefix"], *r["uri_prefix_synonyms"]]}

    def overlapping():
        return [Record(prefix=r["prefix"], uri_prefix=r["uri_prefix"], prefix_synonyms=[_fresh(taken_p, "by", d)],
                       uri_prefix_synonyms=[_fresh(taken_u, "bystander://u")]) for r in recs]

    def disturb(derived):
        for rec in overlapping():
            try:
                derived.add_record(rec, merge=True)
            except Exception:  # noqa: BLE001
                pass

    def attempt(fn):
        try:
            out = fn()
        except Exception:  # noqa: BLE001
            return
        if isinstance(out, Converter) and out is not c:
            disturb(out)

    other = lambda: Converter(overlapping(), delimiter=d)  # noqa: E731
    attempt(lambda: curies.chain([c, other()]))
    attempt(lambda: curies.chain([other(), c]))
    attempt(lambda: curies.chain([c, other()], case_sensitive=False))
    attempt(lambda: c.get_subconverter(sorted(taken_p)))
    attempt(lambda: c.get_subconverter(iter([r["prefix"] for r in recs[:1]])))
    first_p = recs[0]["prefix"] if recs else "zz"
    first_u = recs[0]["uri_prefix"] if recs else "zz"
    for _ in range(2):
        attempt(lambda: curies.remap_curie_prefixes(c, {}))
        attempt(lambda: curies.remap_curie_prefixes(c, {_fresh(taken_p, "unk", d): _fresh(taken_p, "tgt", d)}))
        attempt(lambda: curies.remap_curie_prefixes(c, {first_p: "byrenamed"}))
        attempt(lambda: curies.remap_uri_prefixes(c, {first_u: "bystander://remapped/"}))
        attempt(lambda: curies.remap_uri_prefixes(c, {}))
        attempt(lambda: curies.rewire(c, {first_p: "bystander://rewired/"}))
    attempt(lambda: curies.discover([first_u + "1", first_u + "2", "bystander://d/1", "bystander://d/2"], converter=c, cutoff=1))
    return c


def mk_ci_incremental(spec: dict, queries=None) -> Converter | None:
    """The converter of ``spec`` grown string by string with case_sensitive=False merges - or None where that is not
    equivalent to the case-sensitive build (two different records equal up to case)."""
    if not case_insensitive_build_is_equivalent(spec):
        return None
    return mk_incremental_queried(spec, range(len(spec["records"])), queries or (lambda c: None), case_sensitive=False)


def mk_remerged(spec: dict) -> Converter | None:
    """The converter of ``spec`` built at once, after which every record is merged into itself again with
    case_sensitive=False (its bare canonical pair, then one synonym on each side, then the whole record): nothing new
    arrives, so nothing may change - in particular strings of the record that differ only by case must all survive.
    None where a case-insensitive merge would be ambiguous (two different records equal up to case)."""
    if not case_insensitive_build_is_equivalent(spec):
        return None
    c = mk_converter(spec)
    for r in spec["records"]:
        c.add_record(mk_bare_record(r["prefix"], r["uri_prefix"]), merge=True, case_sensitive=False)
        for syn in r["prefix_synonyms"][:1]:
            c.add_prefix(syn, r["uri_prefix"], merge=True, case_sensitive=False)
        for syn in r["uri_prefix_synonyms"][-1:]:
            c.add_record(mk_bare_record(r["prefix"], syn), merge=True, case_sensitive=False)
        c.add_record(mk_record(r), merge=True, case_sensitive=False)
        # a record spelt with secondary names only (linked to its owner through synonym entries alone)
        if r["prefix_synonyms"] and r["uri_prefix_synonyms"]:
            c.add_record(mk_bare_record(r["prefix_synonyms"][-1], r["uri_prefix_synonyms"][0]), merge=True, case_sensitive=False)
    return c


def mk_after_rejected_calls(spec: dict) -> Converter:
    """The converter of ``spec`` built at once, on which calls that MUST be rejected are then attempted (C05: "a rejected
    call ... raises ValueError and changes nothing"): records bridging two different existing records (with merge=True, in
    both case modes), fresh records listing an existing prefix / URI prefix as a synonym (merge=False), and plain
    re-registrations of existing names (merge=False). A call that is wrongly accepted, or a rejected one that leaves traces,
    makes the converter answer differently from ``Converter(records)``."""
    d = spec.get("delimiter", ":")
    recs = spec["records"]
    c = mk_converter(spec)
    taken_p = {x for r in recs for x in [r["prefix"], *r["prefix_synonyms"]]}
    taken_u = {x for r in recs for x in [r["uri_prefix"], *r["uri_prefix_synonyms"]]}

    def attempt(fn):
        try:
            fn()
        except Exception:  # noqa: BLE001
            pass

    for i, r1 in enumerate(recs):
        r2 = recs[(i + 1) % len(recs)]
        p_new, u_new = _fresh(taken_p, "rej", d), _fresh(taken_u, "rejected://u")
        if r2 is not r1:
            # bridges: touch r1 on one side and r2 on the other (or the same) side
            attempt(lambda: c.add_record(Record(prefix=p_new, uri_prefix=u_new, prefix_synonyms=[r1["prefix"]], uri_prefix_synonyms=[r2["uri_prefix"]]), merge=True))
            attempt(lambda: c.add_record(Record(prefix=r1["prefix"], uri_prefix=r2["uri_prefix"]), merge=True))
            attempt(lambda: c.add_record(Record(prefix=p_new, uri_prefix=u_new, prefix_synonyms=[r1["prefix"], r2["prefix"]]), merge=True, case_sensitive=False))
            attempt(lambda: c.add_prefix(p_new, r1["uri_prefix"], uri_prefix_synonyms=[r2["uri_prefix"]], merge=True))
        # clashes without merge: everything new except one synonym / one canonical value
        attempt(lambda: c.add_prefix(p_new, u_new, prefix_synonyms=[_fresh(taken_p, "rejs", d), r1["prefix"]]))
        attempt(lambda: c.add_prefix(p_new, u_new, uri_prefix_synonyms=[_fresh(taken_u, "rejected://s"), r1["uri_prefix"]]))
        attempt(lambda: c.add_record(Record(prefix=r1["prefix"], uri_prefix=u_new)))
        attempt(lambda: c.add_record(Record(prefix=p_new, uri_prefix=r1["uri_prefix"])))
        # ... and with every synonym of the record (looked up in synonym lists that keep the order they were given in)
        for syn in r1["prefix_synonyms"]:
            attempt(lambda: c.add_record(Record(prefix=syn, uri_prefix=u_new)))
            attempt(lambda: c.add_prefix(p_new, u_new, prefix_synonyms=[syn]))
        for syn in r1["uri_prefix_synonyms"]:
            attempt(lambda: c.add_record(Record(prefix=p_new, uri_prefix=syn)))
            attempt(lambda: c.add_prefix(p_new, u_new, uri_prefix_synonyms=[syn]))
    return c


def mk_sibling_same_list(spec: dict) -> Converter | None:
    """Two converters are constructed from the SAME list object holding all records but the last; the sibling is extended
    with a decoy record that claims the last record's canonical URI prefix under another name; then the converter under
    test is completed with the last record. Constructing a converter must not tie it to the caller's list (nor to other
    converters made from it), so the result denotes exactly ``spec``."""
    recs = spec["records"]
    d = spec.get("delimiter", ":")
    if not recs:
        return None
    last = recs[-1]
    shared = mk_records(recs[:-1])
    sibling = Converter(shared, delimiter=d)
    under_test = Converter(shared, delimiter=d)
    taken_p = {x for r in recs for x in [r["prefix"], *r["prefix_synonyms"]]}
    try:
        sibling.add_record(Record(prefix=_fresh(taken_p, "decoy", d), uri_prefix=last["uri_prefix"]))
    except Exception:  # noqa: BLE001
        pass
    under_test.add_record(mk_record(last), merge=True)
    return under_test


def history_variants(spec: dict, queries=None, *, base: bool = True):
    """(label, converter) pairs: the converter denoted by ``spec`` reached through every history this harness knows. All
    of them must answer every query identically (C05 / C09 / C10); the scalar properties are checked on each."""
    n = len(spec["records"])
    if base:
        yield "built at once", mk_converter(spec)
    yield "built incrementally with interleaved queries", mk_incremental_queried(spec, list(reversed(range(n))), queries or (lambda c: None))
    yield "built by merging whole records that are named after a synonym", mk_split_merge(spec)
    yield "built incrementally, every synonym merged twice", mk_incremental_queried(spec, range(n), lambda c: None, repeat=2)
    yield "constructed from a one-shot iterator of records", Converter(iter(mk_records(spec["records"])), delimiter=spec.get("delimiter", ":"))
    ci = mk_ci_incremental(spec, queries)
    if ci is not None:
        yield "built incrementally with case-insensitive merges", ci
    rm = mk_remerged(spec)
    if rm is not None:
        yield "built at once, then every record merged into itself again case-insensitively", rm
    sib = mk_sibling_same_list(spec)
    if sib is not None:
        yield "constructed from a list that a sibling converter (extended in between) was constructed from too, then completed", sib
    yield "built at once, then calls that must be rejected (bridging merges, clashing additions) were attempted", mk_after_rejected_calls(spec)
    yield "built at once, then used as input of chain / get_subconverter / remap_* / rewire / discover whose results were mutated", mk_bystander(spec)
