"""Dispatcher: ./check <ID> quick|thorough  |  ./check <ID> --replay <file>.

Exit codes: 0 = property held on everything explored, 1 = violation (prints
``VIOLATION property=<ID> replay=<path>``), 2 = harness error (never a VIOLATION line).
"""

from __future__ import annotations

import hashlib
import importlib
import json
import multiprocessing as mp
import os
import sys
import time
import traceback
from pathlib import Path
from typing import Any

VERIF = Path(__file__).resolve().parent.parent
REPO = Path(os.environ.get("VERIF_REPO", "/repo")).resolve()
SRC = REPO / "src"

# the code under test is always the working tree named by VERIF_REPO (default /repo)
sys.path.insert(0, str(SRC))
if str(VERIF) not in sys.path:
    sys.path.insert(1, str(VERIF))
_deps = VERIF / ".deps"
if _deps.is_dir():
    sys.path.append(str(_deps))

from pbt.common import HarnessError, Stats, Sub, Violation, canon, guarded  # noqa: E402


def _import_curies() -> None:
    import logging

    import curies

    for name in ("curies", "rdflib"):  # keep library log chatter out of the check output
        lg = logging.getLogger(name)
        lg.addHandler(logging.NullHandler())
        lg.propagate = False

    where = Path(curies.__file__).resolve()
    if SRC not in where.parents:
        raise HarnessError(f"curies imported from {where}, expected under {SRC}")


def _settings(n: int, tier: str, steps: int | None = None):
    from hypothesis import HealthCheck, Phase, settings

    kw: dict[str, Any] = dict(
        max_examples=n,
        database=None,
        deadline=None,
        derandomize=False,
        report_multiple_bugs=False,
        suppress_health_check=list(HealthCheck),
        phases=[Phase.generate, Phase.shrink],
        print_blob=False,
    )
    if steps is not None:
        kw["stateful_step_count"] = steps
    return settings(**kw)


class _Best:
    """Remembers the smallest failing case seen, so a crash inside Hypothesis' shrinker cannot lose a finding."""

    def __init__(self):
        self.v: Violation | None = None
        self.size = 0

    def offer(self, v: Violation):
        size = len(canon(v.case))
        if self.v is None or size < self.size:
            self.v, self.size = v, size


def _finish(best: _Best, exc: BaseException) -> Violation:
    """Hypothesis itself failed (e.g. an internal shrinker error, Flaky) after at least one violation was observed."""
    if best.v is None:
        raise exc
    best.v.message += f"  [note: Hypothesis aborted shrinking with {type(exc).__name__}: {str(exc)[:120]}; smallest failing case seen is reported]"
    return best.v


def run_given(sub: Sub, tier: str, seed: int, stats: Stats, scale: float = 1.0) -> Violation | None:
    from hypothesis import given
    from hypothesis import seed as hseed

    n = max(1, int(sub.n[tier] * scale))
    strat = sub.strategy(tier)
    best = _Best()

    @hseed(seed)
    @_settings(n, tier)
    @given(strat)
    def test(case):
        stats.case()
        try:
            guarded(sub.check, case, stats)
        except Violation as v:
            best.offer(v)
            raise

    from hypothesis.errors import Flaky

    for attempt in (1, 2):
        try:
            test()
        except Violation as v:
            return v
        except HarnessError:
            raise
        except Flaky as e:
            # an error inside the harness that did not reproduce when Hypothesis replayed the case (no violation was seen):
            # a transient environment problem (memory / file-system pressure while other campaigns run) - inconclusive, never a
            # violation. The sub-check is run once more from the start; a second flake is reported as a harness error.
            if best.v is not None or attempt == 2:
                return _finish(best, e)
            stats.extra["flaky_reruns"] = stats.extra.get("flaky_reruns", 0) + 1
            continue
        except Exception as e:  # noqa: BLE001
            return _finish(best, e)
        return None
    return None


def run_machine(sub: Sub, tier: str, seed: int, stats: Stats, scale: float = 1.0) -> Violation | None:
    from hypothesis import seed as hseed
    from hypothesis.stateful import run_state_machine_as_test

    n = max(1, int(sub.n[tier] * scale))
    best = _Best()
    machine = sub.machine(tier, stats)
    stats.extra.setdefault("_best_hook", None)
    try:
        run_state_machine_as_test(hseed(seed)(machine), settings=_settings(n, tier, sub.steps[tier]))
    except Violation as v:
        return v
    except HarnessError:
        raise
    except Exception as e:  # noqa: BLE001
        v = getattr(stats, "last_violation", None)
        if v is not None:
            best.offer(v)
        return _finish(best, e)
    finally:
        stats.extra.pop("_best_hook", None)
    return None


def run_sub(sub: Sub, tier: str, seed: int, stats: Stats, scale: float = 1.0) -> Violation | None:
    # derive a per-sub seed so adding a sub-check does not shift the others
    sseed = (seed * 1_000_003 + int(hashlib.sha1(sub.name.encode()).hexdigest()[:8], 16)) % (2**63)
    if sub.kind == "given":
        return run_given(sub, tier, sseed, stats, scale)
    if sub.kind == "machine":
        return run_machine(sub, tier, sseed, stats, scale)
    if sub.kind == "custom":
        try:
            sub.custom(tier, sseed, stats)
        except Violation as v:
            return v
        return None
    raise HarnessError(f"unknown sub kind {sub.kind}")


def _shard_worker(args):
    pid, tier, seed, shard, nshards, only = args
    try:
        _import_curies()
        mod = importlib.import_module(f"pbt.props.{pid.lower()}")
        stats = Stats()
        for sub in mod.SUBS:
            if only and sub.name not in only:
                continue
            if not sub.sharded and shard != 0:
                continue
            v = run_sub(sub, tier, seed * 7919 + shard * 104729 + 17, stats)
            if v is not None:
                return {"stats": stats.dump(), "violation": {"sub": sub.name, "message": v.message, "case": json.loads(canon(v.case))}, "shard": shard}
        return {"stats": stats.dump(), "violation": None, "shard": shard}
    except HarnessError as e:
        return {"stats": None, "harness_error": str(e), "shard": shard}
    except BaseException as e:  # noqa: BLE001
        return {"stats": None, "harness_error": "".join(traceback.format_exception(type(e), e, e.__traceback__)), "shard": shard}


def write_replay(pid: str, sub: str, message: str, case: Any) -> Path:
    d = Path(os.environ.get("VERIF_REPLAY_DIR") or (VERIF / "replays")) / pid
    d.mkdir(parents=True, exist_ok=True)
    body = {"property": pid, "sub": sub, "message": message, "case": json.loads(canon(case))}
    digest = hashlib.sha1(canon({"sub": sub, "case": body["case"]}).encode()).hexdigest()[:16]
    p = d / f"{sub}-{digest}.json"
    p.write_text(json.dumps(body, indent=1, ensure_ascii=True, sort_keys=True))
    return p


def load_known(pid: str) -> list[dict]:
    p = VERIF / "known_findings.json"
    if not p.exists():
        return []
    return [e for e in json.loads(p.read_text()).get("findings", []) if e.get("property") == pid]


def main(argv: list[str]) -> int:
    import tempfile

    with tempfile.TemporaryDirectory(prefix="curies-verif-") as base:
        os.environ["VERIF_TMP"] = base  # per-process sub-directories are made by common.scratch_dir()
        return _main(argv)


def _main(argv: list[str]) -> int:
    if len(argv) < 2:
        print("usage: run.py <ID> quick|thorough | <ID> --replay <file>", file=sys.stderr)
        return 2
    pid = argv[0].upper()
    t0 = time.time()
    try:
        _import_curies()
        mod = importlib.import_module(f"pbt.props.{pid.lower()}")
    except HarnessError as e:
        print(f"HARNESS-ERROR: {e}", file=sys.stderr)
        return 2
    except Exception:  # noqa: BLE001
        traceback.print_exc()
        print("HARNESS-ERROR: cannot import property module", file=sys.stderr)
        return 2
    subs = {s.name: s for s in mod.SUBS}

    # ------------------------------------------------------------------ replay mode
    if argv[1] == "--replay":
        path = Path(argv[2])
        body = json.loads(path.read_text())
        sub = subs.get(body["sub"])
        if sub is None:
            print(f"HARNESS-ERROR: unknown sub {body['sub']}", file=sys.stderr)
            return 2
        try:
            guarded(sub.check, body["case"], Stats())
        except Violation as v:
            print(f"replay: {v.message}")
            print(f"VIOLATION property={pid} replay={path}")
            return 1
        except HarnessError as e:
            print(f"HARNESS-ERROR: {e}", file=sys.stderr)
            return 2
        print(f"replay: property {pid} holds on {path}")
        return 0

    tier = argv[1]
    if tier not in ("quick", "thorough"):
        print("tier must be quick or thorough", file=sys.stderr)
        return 2
    seed = int(os.environ.get("VERIF_SEED", "1") or "1")
    only = set(filter(None, os.environ.get("VERIF_ONLY", "").split(",")))
    stats = Stats()
    violation: dict | None = None
    notes: list[str] = []

    try:
        # -------------------------------------------------------------- known findings
        known_open = [e for e in load_known(pid) if e.get("status") == "open"]
        probes = getattr(mod, "KNOWN_PROBES", {})
        for e in known_open:
            probe = probes.get(e["key"])
            if probe is None:
                raise HarnessError(f"known finding {e['key']} has no probe in {mod.__name__}")
            if probe(stats):
                print(f"KNOWN-FINDING: property={pid} {e['what']}")
                notes.append(f"known finding reproduced: {e['key']}")
            else:
                notes.append(f"known finding no longer reproduces: {e['key']}")
                print(f"note: known finding {e['key']} no longer reproduces")

        # -------------------------------------------------------------- corpus (regressions)
        cdir = VERIF / "corpus" / pid
        ncorpus = 0
        if cdir.is_dir() and not os.environ.get("VERIF_NO_CORPUS"):
            for f in sorted(cdir.glob("*.json")):
                body = json.loads(f.read_text())
                sub = subs.get(body["sub"])
                if sub is None:
                    raise HarnessError(f"corpus file {f} names unknown sub {body['sub']}")
                ncorpus += 1
                try:
                    guarded(sub.check, body["case"], stats)
                except Violation as v:
                    violation = {"sub": sub.name, "message": f"[corpus {f.name}] {v.message}", "case": body["case"]}
                    break
        stats.extra["corpus_cases_replayed"] = ncorpus

        # -------------------------------------------------------------- generated search
        if violation is None:
            nshards = int(os.environ.get("VERIF_SHARDS", "0") or "0") or (
                getattr(mod, "SHARDS", {}).get(tier, 16 if tier == "thorough" else 1)
            )
            if nshards <= 1:
                for sub in mod.SUBS:
                    if only and sub.name not in only:
                        continue
                    v = run_sub(sub, tier, seed, stats)
                    if v is not None:
                        violation = {"sub": sub.name, "message": v.message, "case": json.loads(canon(v.case))}
                        break
            else:
                ctx = mp.get_context("fork")
                with ctx.Pool(min(nshards, os.cpu_count() or 1)) as pool:
                    results = pool.map(_shard_worker, [(pid, tier, seed, k, nshards, only) for k in range(nshards)])
                for r in sorted(results, key=lambda r: r["shard"]):
                    if r.get("harness_error"):
                        raise HarnessError(f"shard {r['shard']}: {r['harness_error']}")
                    stats.merge(r["stats"])
                    if r["violation"] is not None and violation is None:
                        violation = r["violation"]
                stats.extra["shards"] = nshards

        # -------------------------------------------------------------- vacuity guard
        if violation is None and not only:
            for sub in mod.SUBS:
                for c in sub.required_classes:
                    if stats.classes.get(c, 0) == 0:
                        raise HarnessError(f"vacuity guard: class {c!r} required by {sub.name} never occurred")
    except HarnessError as e:
        print(f"HARNESS-ERROR: {e}", file=sys.stderr)
        return 2
    except Exception:  # noqa: BLE001
        traceback.print_exc()
        print("HARNESS-ERROR: unexpected failure in the runner", file=sys.stderr)
        return 2

    wall = time.time() - t0
    coverage = {
        "evaluations": stats.evaluations,
        "distinct_nontrivial": len(stats.nt),
        "rule": mod.RULE,
        "samples": stats.samples,
        "generated_cases": stats.cases + stats.extra.get("histories", 0),  # a state-machine history is one generated case
        "classes": dict(sorted(stats.classes.items())),
        "excluded_by_construction": dict(stats.excluded),
        "sub_checks": [s.name for s in mod.SUBS if not only or s.name in only],
    }
    coverage.update(stats.extra)
    if notes:
        coverage["notes"] = notes
    evidence = {
        "property_id": pid,
        "tier": tier,
        "seed": seed,
        "level": getattr(mod, "LEVEL", "exploration"),
        "coverage": coverage,
        "assumptions": list(getattr(mod, "ASSUMPTIONS", [])),
        "wall_s": round(wall, 2),
        "violations": 1 if violation else 0,
    }
    # VERIF_EVIDENCE_DIR is only set by the sensitivity tooling (mutants / seeded changes) so that runs against a
    # deliberately broken scratch copy never overwrite the evidence of the real tree
    edir = Path(os.environ.get("VERIF_EVIDENCE_DIR") or (VERIF / "evidence"))
    edir.mkdir(parents=True, exist_ok=True)
    (edir / f"{pid}.json").write_text(json.dumps(evidence, indent=1, ensure_ascii=True, sort_keys=True) + "\n")

    if violation is not None:
        path = write_replay(pid, violation["sub"], violation["message"], violation["case"])
        print(f"violation in sub-check {violation['sub']}: {violation['message']}")
        print(f"minimal case: {canon(violation['case'])[:2000]}")
        print(f"VIOLATION property={pid} replay={path}")
        return 1
    print(
        f"OK property={pid} tier={tier} seed={seed} cases={stats.cases + stats.extra.get("histories", 0)} evaluations={stats.evaluations} "
        f"distinct_nontrivial={len(stats.nt)} wall={wall:.1f}s"
    )
    return 0


if __name__ == "__main__":
    sys.exit(main(sys.argv[1:]))
