"""Independent reference model (DESIGN.md §4): slow, obviously-correct restatement of the documented
semantics over plain dict records.  No trie, no derived indexes, no pydantic, never calls curies."""

from __future__ import annotations

import copy
from typing import Any, Optional

NODELIM = "NODELIM"  # marker: the string does not contain the delimiter


def rec(prefix, uri_prefix, prefix_synonyms=(), uri_prefix_synonyms=(), pattern=None) -> dict:
    return {
        "prefix": prefix,
        "uri_prefix": uri_prefix,
        "prefix_synonyms": list(prefix_synonyms),
        "uri_prefix_synonyms": list(uri_prefix_synonyms),
        "pattern": pattern,
    }


def prefixes_of(r: dict) -> list[str]:
    return [r["prefix"], *r["prefix_synonyms"]]


def uri_prefixes_of(r: dict) -> list[str]:
    return [r["uri_prefix"], *r["uri_prefix_synonyms"]]


class Model:
    def __init__(self, records: list[dict], delimiter: str = ":"):
        self.records = copy.deepcopy(records)
        self.delimiter = delimiter

    # ---- ownership ---------------------------------------------------------------------
    def owner(self, prefix: str) -> Optional[dict]:
        for r in self.records:
            if prefix in prefixes_of(r):
                return r
        return None

    def uri_owner(self, uri_prefix: str) -> Optional[dict]:
        for r in self.records:
            if uri_prefix in uri_prefixes_of(r):
                return r
        return None

    # ---- URI side ----------------------------------------------------------------------
    def uri_matches(self, u: str) -> list[tuple[str, dict]]:
        return [(p, r) for r in self.records for p in uri_prefixes_of(r) if u.startswith(p)]

    def longest_match(self, u: str) -> Optional[tuple[str, dict]]:
        ms = self.uri_matches(u)
        if not ms:
            return None
        return max(ms, key=lambda m: len(m[0]))  # URI prefixes are unique, so no ties in length among matches

    def parse_uri(self, u: str) -> Optional[tuple[str, str]]:
        m = self.longest_match(u)
        if m is None:
            return None
        p, r = m
        return (r["prefix"], u[len(p):])

    def compress(self, u: str) -> Optional[str]:
        pr = self.parse_uri(u)
        return None if pr is None else pr[0] + self.delimiter + pr[1]

    def standardize_uri(self, u: str) -> Optional[str]:
        m = self.longest_match(u)
        if m is None:
            return None
        p, r = m
        return r["uri_prefix"] + u[len(p):]

    # ---- CURIE side --------------------------------------------------------------------
    def split(self, s: str):
        if self.delimiter not in s:
            return NODELIM
        head, _, tail = s.partition(self.delimiter)
        return head, tail

    def parse_curie(self, s: str):
        """NODELIM | None (unknown prefix) | (canonical prefix, identifier)."""
        sp = self.split(s)
        if sp == NODELIM:
            return NODELIM
        head, tail = sp
        r = self.owner(head)
        if r is None:
            return None
        return (r["prefix"], tail)

    def expand(self, s: str) -> Optional[str]:
        pc = self.parse_curie(s)
        if pc is None or pc == NODELIM:
            return None
        return self.owner(pc[0])["uri_prefix"] + pc[1]

    def expand_pair(self, prefix: str, identifier: str) -> Optional[str]:
        r = self.owner(prefix)
        return None if r is None else r["uri_prefix"] + identifier

    def expand_pair_all(self, prefix: str, identifier: str) -> Optional[list[str]]:
        r = self.owner(prefix)
        return None if r is None else [u + identifier for u in uri_prefixes_of(r)]

    def expand_all(self, s: str) -> Optional[list[str]]:
        sp = self.split(s)
        if sp == NODELIM:
            return None
        return self.expand_pair_all(*sp)

    def standardize_prefix(self, p: str) -> Optional[str]:
        r = self.owner(p)
        return None if r is None else r["prefix"]

    def standardize_curie(self, s: str) -> Optional[str]:
        pc = self.parse_curie(s)
        if pc is None or pc == NODELIM:
            return None
        return pc[0] + self.delimiter + pc[1]

    def is_curie(self, s: str) -> bool:
        pc = self.parse_curie(s)
        return pc is not None and pc != NODELIM

    def parse(self, s: str) -> Optional[tuple[str, str]]:
        pu = self.parse_uri(s)
        if pu is not None:
            return pu
        pc = self.parse_curie(s)
        if pc is None or pc == NODELIM:
            return None
        return pc

    # ---- global structure --------------------------------------------------------------
    def all_prefixes(self) -> list[str]:
        return [p for r in self.records for p in prefixes_of(r)]

    def all_uri_prefixes(self) -> list[str]:
        return [p for r in self.records for p in uri_prefixes_of(r)]

    def is_prefix_free(self) -> bool:
        ups = self.all_uri_prefixes()
        return not any(a != b and b.startswith(a) for a in ups for b in ups)


# ---- clashes between different records (C04) ---------------------------------------------
def clash_sets(records: list[dict]) -> tuple[set[str], set[str]]:
    """Strings claimed by two *different* records on the CURIE side / on the URI side."""
    cur: dict[str, set[int]] = {}
    uri: dict[str, set[int]] = {}
    for i, r in enumerate(records):
        for p in prefixes_of(r):
            cur.setdefault(p, set()).add(i)
        for u in uri_prefixes_of(r):
            uri.setdefault(u, set()).add(i)
    return ({p for p, s in cur.items() if len(s) > 1}, {u for u, s in uri.items() if len(s) > 1})


# ---- add_record (C05 / C09) --------------------------------------------------------------
def _fold(s: str, case_sensitive: bool) -> str:
    return s if case_sensitive else s.casefold()


def matching_records(records: list[dict], new: dict, case_sensitive: bool) -> list[int]:
    np_ = {_fold(p, case_sensitive) for p in prefixes_of(new)}
    nu = {_fold(u, case_sensitive) for u in uri_prefixes_of(new)}
    out = []
    for i, r in enumerate(records):
        if np_ & {_fold(p, case_sensitive) for p in prefixes_of(r)} or nu & {
            _fold(u, case_sensitive) for u in uri_prefixes_of(r)
        }:
            out.append(i)
    return out


def add_record(records: list[dict], new: dict, *, case_sensitive: bool = True, merge: bool = False) -> tuple[str, Any]:
    """Documented rule. Returns ("reject", reason) without touching ``records`` or
    ("append"|"merge", index) after updating ``records`` in place."""
    m = matching_records(records, new, case_sensitive)
    if len(m) > 1:
        return ("reject", "matches several records")
    if len(m) == 1:
        if not merge:
            return ("reject", "exists and merge=False")
        r = records[m[0]]
        for p in prefixes_of(new):
            if p not in prefixes_of(r):
                r["prefix_synonyms"].append(p)
        for u in uri_prefixes_of(new):
            if u not in uri_prefixes_of(r):
                r["uri_prefix_synonyms"].append(u)
        return ("merge", m[0])
    records.append(copy.deepcopy(new))
    return ("append", len(records) - 1)


def norm_record(r: dict) -> dict:
    """Order-insensitive normal form of a record (synonyms as sorted lists, empty pattern == None)."""
    return {
        "prefix": r["prefix"],
        "uri_prefix": r["uri_prefix"],
        "prefix_synonyms": sorted(set(r["prefix_synonyms"])),
        "uri_prefix_synonyms": sorted(set(r["uri_prefix_synonyms"])),
        "pattern": r.get("pattern") or None,
    }


def norm_records(records: list[dict]) -> list[dict]:
    return sorted((norm_record(r) for r in records), key=lambda r: (r["prefix"], r["uri_prefix"]))
