"""Shared plumbing for the property checks: violations, case accounting, sub-check descriptors."""

from __future__ import annotations

import hashlib
import json
import os
import traceback
from pathlib import Path
from collections import Counter
from dataclasses import dataclass, field
from typing import Any, Callable, Optional


class Violation(Exception):
    """The code under test broke the property on a concrete case.

    ``case`` is a JSON-serialisable description of the complete case (records, arguments,
    operation history); it is what the replay file stores.
    """

    def __init__(self, message: str, case: Any = None):
        super().__init__(message)
        self.message = message
        self.case = case


class HarnessError(Exception):
    """Something is wrong with the machinery itself (exit 2, never a VIOLATION)."""


def canon(obj: Any) -> str:
    return json.dumps(obj, sort_keys=True, ensure_ascii=True, default=_default)


def _default(o: Any) -> Any:
    if isinstance(o, (set, frozenset)):
        return sorted(o)
    if isinstance(o, tuple):
        return list(o)
    if isinstance(o, bytes):
        return {"__bytes__": o.hex()}
    return repr(o)


def h64(obj: Any) -> int:
    return int.from_bytes(hashlib.blake2b(canon(obj).encode(), digest_size=8).digest(), "big")


MAX_SAMPLES_PER_CLASS = 2
MAX_SAMPLES = 10


class Stats:
    """Counts what a run really covered.

    * ``cases``        top-level generated cases (calls of a check function / histories)
    * ``evaluations``  oracle comparisons at the granularity the property's rule speaks about
    * ``nt``           set of 64-bit hashes of DISTINCT non-trivial units
    * ``classes``      histogram of named case classes (so an empty interesting class is visible)
    * ``samples``      a few of the actual non-trivial units
    """

    def __init__(self) -> None:
        self.cases = 0
        self.evaluations = 0
        self.nt: set[int] = set()
        self.classes: Counter[str] = Counter()
        self.samples: list[Any] = []
        self._sample_classes: Counter[str] = Counter()
        self.extra: dict[str, Any] = {}
        self.excluded: Counter[str] = Counter()

    def case(self) -> None:
        self.cases += 1

    def ev(self, n: int = 1) -> None:
        self.evaluations += n

    def cls(self, name: str, n: int = 1) -> None:
        self.classes[name] += n

    def nontrivial(self, unit: Any, klass: str = "nontrivial") -> None:
        """Record one non-trivial unit (deduplicated by content hash)."""
        h = h64(unit)
        self.classes["nt:" + klass] += 1
        if h in self.nt:
            return
        self.nt.add(h)
        if (
            len(self.samples) < MAX_SAMPLES
            and self._sample_classes[klass] < MAX_SAMPLES_PER_CLASS
        ):
            self._sample_classes[klass] += 1
            self.samples.append({"class": klass, "unit": json.loads(canon(unit))})

    def exclude(self, name: str, n: int = 1) -> None:
        self.excluded[name] += n

    # --- merging across shards -------------------------------------------------------
    def dump(self) -> dict[str, Any]:
        return {
            "cases": self.cases,
            "evaluations": self.evaluations,
            "nt": self.nt,
            "classes": dict(self.classes),
            "samples": self.samples,
            "extra": self.extra,
            "excluded": dict(self.excluded),
        }

    def merge(self, d: dict[str, Any]) -> None:
        self.cases += d["cases"]
        self.evaluations += d["evaluations"]
        self.nt |= d["nt"]
        self.classes.update(d["classes"])
        self.excluded.update(d["excluded"])
        for s in d["samples"]:
            if len(self.samples) < MAX_SAMPLES and self._sample_classes[s["class"]] < MAX_SAMPLES_PER_CLASS:
                self._sample_classes[s["class"]] += 1
                self.samples.append(s)
        for k, v in d["extra"].items():
            if isinstance(v, (int, float)) and isinstance(self.extra.get(k, 0), (int, float)):
                self.extra[k] = self.extra.get(k, 0) + v
            else:
                self.extra.setdefault(k, v)


@dataclass
class Sub:
    """One sub-check of a property.

    kind == "given":   ``strategy(tier)`` yields JSON-able cases, ``check(case, stats)`` raises Violation
    kind == "machine": ``machine(tier, stats)`` returns a RuleBasedStateMachine subclass whose rules raise
                       Violation(case=history); ``check(case, stats)`` re-interprets a stored history
    kind == "custom":  ``custom(tier, seed, stats)`` does its own (e.g. exhaustive) exploration and raises
                       Violation; ``check(case, stats)`` re-checks one stored case
    """

    name: str
    check: Callable[[Any, Stats], None]
    kind: str = "given"
    strategy: Optional[Callable[[str], Any]] = None
    machine: Optional[Callable[[str, Stats], Any]] = None
    custom: Optional[Callable[[str, int, Stats], None]] = None
    n: dict = field(default_factory=lambda: {"quick": 200, "thorough": 1000})
    steps: dict = field(default_factory=lambda: {"quick": 12, "thorough": 30})
    sharded: bool = True  # run in every thorough shard (False: only in shard 0)
    required_classes: tuple = ()  # classes that must be non-empty, else harness error (vacuity guard)


SRC = Path(os.environ.get("VERIF_REPO", "/repo")).resolve() / "src"

_OWN_BASE = None


def scratch_dir() -> Path:
    """Per-PROCESS scratch directory for the files a check writes (never shared between the forked shards of the thorough
    tier: two shards writing the same file name would look like a defect of the code under test). The base directory is
    created by the runner before it forks and removed when it exits; it lives outside /repo and /verif."""
    global _OWN_BASE
    base = os.environ.get("VERIF_TMP")
    if not base or not Path(base).is_dir():
        import tempfile

        _OWN_BASE = tempfile.TemporaryDirectory(prefix="curies-verif-")
        base = _OWN_BASE.name
        os.environ["VERIF_TMP"] = base
    d = Path(base) / f"p{os.getpid()}"
    d.mkdir(parents=True, exist_ok=True)
    return d


def _passes_through_sut(tb) -> bool:
    """Does the traceback contain a frame of the code under test?"""
    src = str(SRC)
    while tb is not None:
        if tb.tb_frame.f_code.co_filename.startswith(src):
            return True
        tb = tb.tb_next
    return False


def guarded(check, case, stats):
    """Call a check; turn unexpected exceptions that escaped the code under test into violations."""
    import hypothesis.errors

    try:
        check(case, stats)
    except Violation as v:
        if v.case is None:
            v.case = case
        prev = getattr(stats, "last_violation", None)
        if prev is None or len(canon(v.case)) <= len(canon(prev.case)):
            stats.last_violation = v
        raise
    except (hypothesis.errors.HypothesisException, KeyboardInterrupt, MemoryError, HarnessError):
        raise
    except BaseException as e:  # noqa: BLE001
        if isinstance(e, (SystemExit, GeneratorExit)):
            raise
        if e.__class__.__name__ in {"UnsatisfiedAssumption", "StopTest", "Frozen"}:
            raise
        if _passes_through_sut(e.__traceback__):
            tb = "".join(traceback.format_exception(type(e), e, e.__traceback__)[-6:])
            raise Violation(f"unexpected {type(e).__name__} escaped the code under test: {e}\n{tb}", case) from e
        raise HarnessError(
            "exception inside the harness: " + "".join(traceback.format_exception(type(e), e, e.__traceback__))
        ) from e
