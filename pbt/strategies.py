"""Shared Hypothesis generators (DESIGN.md §3).

Everything is built by construction (no assume/filter on whole cases).  A converter
"spec" is plain JSON: {"delimiter": str, "records": [ {prefix, uri_prefix, prefix_synonyms,
uri_prefix_synonyms, pattern} ]}.
"""

from __future__ import annotations

from hypothesis import strategies as st

CURIE_ALPHA = "abAB1._é"
URI_ALPHA = "ab/_#:Aé"
URL_TAIL_ALPHA = "ab/_#A1"
URL_BASES = ["http://h/", "https://h/", "http://g.org/x"]

UNICODE = st.characters(exclude_categories=["Cs"])
LONG_IDENTIFIERS = ["9" * 255, "a" * 256 + "/b", "x" * 1025]
IDENTIFIER_FIXED = ["", "1", "0001", "a/b", "x#y", "a b", "é", "A", "a_1", "1:2", "/x", "x/", "#x", "_x", " 1", "1 ", "1\n", "aB", "Ab", "//x", "a.b", "-1", "%20", "?q=1", "e\u0301", "\u212b1", "\ufb01x", "\uff11\uff12"]
# realistic, long URI prefixes (some behaviour only shows beyond a certain length or with a scheme)
# strings that change under Unicode normalisation (NFC / NFD / NFKC), case folding or both: decomposed e-acute, ANGSTROM SIGN,
# fi ligature, full-width letters, long s with dot below + above, OHM SIGN, i + combining dot, dotted capital I, sharp s, a
# titlecase digraph, KELVIN SIGN, a CJK compatibility ideograph, superscript two
NORMALISATION_SENSITIVE = ["e\u0301", "\u212b", "\ufb01", "\uff27\uff2f", "\u1e9b\u0323", "\u2126", "i\u0307", "\u0130", "\u00df", "\u01c5", "\u212a", "\uf900", "x\u00b2"]
# strings with (Unicode) whitespace at an edge: legal in prefixes and URI prefixes, changed by any strip()
WHITESPACE_EDGED = ["a\u00a0", "\u00a0a", "b\u3000", "\u2003c", "d ", " e", "\tf", "g\n", "\u00a0"]
LONG_BASES = ["http://purl.obolibrary.org/obo/", "https://example.org/ns#", "urn:x:", "http://purl.obolibrary.org/obo/CHEBI_", "HTTP://EXAMPLE.ORG/",
              "http://long.example.org/" + "segment/" * 40]  # > 300 characters


def txt(alphabet, *, min_size: int = 0, max_size: int = 4) -> st.SearchStrategy[str]:
    """Text over a small alphabet, built from integer choices.

    Deliberately NOT st.text(alphabet=...): Hypothesis 6.168's shrinker (minimize_duplicated_choices) crashes with
    "ValueError: N is not in list" when two equal string choices come from text strategies with different alphabets."""
    return st.lists(st.sampled_from(list(alphabet)), min_size=min_size, max_size=max_size).map("".join)


def delimiters() -> st.SearchStrategy[str]:
    return st.sampled_from([":", ":", ":", ":", ":", ":", "/", "|", "_", "::", "-", "="])


def _minus(alphabet: str, forbidden: str) -> str:
    out = "".join(ch for ch in alphabet if ch not in forbidden)
    return out or "z"


@st.composite
def curie_pool(draw, min_size: int, max_size: int, *, forbidden: str = "", allow_empty: bool = True, unicode_arm: bool = True, extra_alpha: str = ""):
    """Distinct CURIE prefixes, rich in case variants and substrings of one another."""
    alpha = _minus(CURIE_ALPHA + extra_alpha, forbidden)
    k = draw(st.integers(min_size, max_size))
    pool: list[str] = []
    attempts = 0
    while len(pool) < k and attempts < 3 * k + 3:
        attempts += 1
        mode = draw(st.integers(0, 9))
        if pool and mode <= 2:
            base = draw(st.sampled_from(pool))
            new = base.swapcase() if mode == 0 else (base + draw(st.sampled_from(alpha)) if mode == 1 else base[:-1])
        elif unicode_arm and mode == 3:
            new = draw(st.one_of(st.text(UNICODE, max_size=3), st.sampled_from(NORMALISATION_SENSITIVE), st.sampled_from(WHITESPACE_EDGED)))
            if forbidden:
                for ch in set(forbidden):
                    new = new.replace(ch, "")
        else:
            new = draw(txt(alpha, min_size=0, max_size=4))
        if (new or allow_empty) and new not in pool and (not forbidden or forbidden not in new):
            pool.append(new)
    i = 0
    while len(pool) < min_size:  # top up with guaranteed-fresh strings (never rejection)
        cand = alpha[0] * (5 + i)
        i += 1
        if cand not in pool:
            pool.append(cand)
    return pool


@st.composite
def uri_pool(draw, min_size: int, max_size: int, *, alphabet: str = URI_ALPHA, allow_empty: bool = True, unicode_arm: bool = True, long_arm: bool = True):
    """Distinct URI prefixes forming a lattice: nested, overlapping, identical up to one character."""
    k = draw(st.integers(min_size, max_size))
    pool: list[str] = []
    attempts = 0
    while len(pool) < k and attempts < 3 * k + 3:
        attempts += 1
        mode = draw(st.integers(0, 11))
        if pool and mode <= 6:
            base = draw(st.sampled_from(pool))
            if mode <= 2:
                new = base + draw(txt(alphabet, min_size=1, max_size=2))
            elif mode == 3:
                new = base[:-1]
            elif mode == 4:
                new = base[:-1] + draw(st.sampled_from(alphabet))
            elif mode == 5:
                new = base.swapcase()
            else:
                new = draw(st.sampled_from(alphabet)) + base
        elif unicode_arm and mode == 7:
            new = draw(st.one_of(st.text(UNICODE, max_size=4), st.sampled_from(NORMALISATION_SENSITIVE).map(lambda x: "http://n/" + x + "/"),
                               st.sampled_from(WHITESPACE_EDGED).map(lambda x: "http://w/" + x), st.sampled_from(WHITESPACE_EDGED)))
        elif long_arm and mode == 8:
            new = draw(st.sampled_from(LONG_BASES)) + draw(txt(alphabet, max_size=2))
        else:
            new = draw(txt(alphabet, min_size=0, max_size=4))
        if (new or allow_empty) and new not in pool:
            pool.append(new)
    i = 0
    while len(pool) < min_size:
        cand = alphabet[0] * (6 + i)
        i += 1
        if cand not in pool:
            pool.append(cand)
    return pool


@st.composite
def url_pool(draw, min_size: int, max_size: int):
    """URL-shaped URI prefixes (valid IRI text) that still nest inside one another."""
    tails = draw(uri_pool(min_size, max_size, alphabet=URL_TAIL_ALPHA, allow_empty=True, unicode_arm=False, long_arm=False))
    nb = draw(st.integers(1, 2))
    bases = URL_BASES[:nb] if draw(st.booleans()) else URL_BASES[-nb:]
    out: list[str] = []
    for t in tails:
        b = draw(st.sampled_from(bases))
        u = b + t
        if u not in out:
            out.append(u)
    i = 0
    while len(out) < min_size:
        cand = URL_BASES[0] + "q" * (3 + i) + "/"
        i += 1
        if cand not in out:
            out.append(cand)
    return out


def _prefix_free(pool: list[str]) -> list[str]:
    kept: list[str] = []
    for u in pool:
        if not any(u.startswith(k) or k.startswith(u) for k in kept):
            kept.append(u)
    return kept


@st.composite
def record_sets(
    draw,
    *,
    delimiter: str = ":",
    min_records: int = 0,
    max_records: int = 6,
    max_syn: int = 4,
    allow_empty_prefix: bool = True,
    allow_empty_uri: bool = True,
    prefix_free: bool = False,
    url_shaped: bool = False,
    prefix_no_delimiter: bool = True,
    patterns: bool = False,
    unicode_arm: bool = True,
    foreign_delimiters: bool = False,
    repeat_synonyms: bool = False,
):
    """A record list that a strict Converter accepts, by construction."""
    n = draw(st.integers(min_records, max_records))
    forbidden = delimiter if prefix_no_delimiter else ""
    # the empty prefix / empty URI prefix are interesting but must not dominate: allow them in ~1/3 of the sets
    allow_empty_prefix = allow_empty_prefix and draw(st.integers(0, 2)) == 0
    allow_empty_uri = allow_empty_uri and draw(st.integers(0, 2)) == 0
    extra_c = draw(st.integers(0, max_syn))
    extra_u = draw(st.integers(0, max_syn))
    # characters that are delimiters of OTHER converters (':' in a prefix of a converter whose delimiter is '|', ...) are
    # ordinary prefix characters here
    extra_alpha = "".join(ch for ch in ":/|_-=" if ch not in delimiter) if foreign_delimiters and draw(st.integers(0, 2)) == 0 else ""
    cp = draw(curie_pool(n, n + extra_c, forbidden=forbidden, allow_empty=allow_empty_prefix, unicode_arm=unicode_arm, extra_alpha=extra_alpha))
    if not prefix_no_delimiter and cp:
        # deliberately put the delimiter INSIDE some prefixes (e.g. APOLLO_SV with delimiter _)
        for k in range(len(cp)):
            if draw(st.integers(0, 3)) == 0:
                cand = cp[k][:1] + delimiter + cp[k][1:] if draw(st.booleans()) else cp[k] + delimiter + "x"
                if cand not in cp:
                    cp[k] = cand
    if url_shaped:
        up = draw(url_pool(n, n + extra_u))
    else:
        up = draw(uri_pool(n, n + extra_u, allow_empty=allow_empty_uri, unicode_arm=unicode_arm))
    if prefix_free:
        up = _prefix_free(up)
    n = min(n, len(cp), len(up))
    if n == 0:
        return []
    if len(cp) > 1:
        cp = list(draw(st.permutations(cp)))
    if len(up) > 1:
        up = list(draw(st.permutations(up)))
    recs = [
        {"prefix": cp[i], "uri_prefix": up[i], "prefix_synonyms": [], "uri_prefix_synonyms": [], "pattern": None}
        for i in range(n)
    ]
    for extra in cp[n:]:
        recs[draw(st.integers(0, n - 1))]["prefix_synonyms"].append(extra)
    for extra in up[n:]:
        recs[draw(st.integers(0, n - 1))]["uri_prefix_synonyms"].append(extra)
    if repeat_synonyms and draw(st.integers(0, 4)) == 0:
        # a record may list one of its synonyms twice (the Record validators allow it; only different records clash)
        r = draw(st.sampled_from(recs))
        side = draw(st.sampled_from(["prefix_synonyms", "uri_prefix_synonyms"]))
        if r[side]:
            r[side].append(draw(st.sampled_from(r[side])))
    if patterns:
        for r in recs:
            if draw(st.integers(0, 2)) == 0:
                r["pattern"] = draw(st.sampled_from(["^\\d+$", "^[A-Z]\\w*$", "^\\d{7}$", "x", "^a\\\\b$"]))
    return recs


@st.composite
def converter_specs(draw, *, delimiter=None, **kw):
    d = draw(delimiters()) if delimiter is None else delimiter
    return {"delimiter": d, "records": draw(record_sets(delimiter=d, **kw))}


def identifiers(delimiter: str = ":") -> st.SearchStrategy[str]:
    return st.one_of(
        st.sampled_from(IDENTIFIER_FIXED + [delimiter, "1" + delimiter + "2", delimiter + "x"]),
        st.sampled_from(IDENTIFIER_FIXED + [delimiter, "1" + delimiter + "2", delimiter + "x"]),
        st.sampled_from(LONG_IDENTIFIERS),
        st.sampled_from(IDENTIFIER_FIXED + [delimiter, "1" + delimiter + "2", delimiter + "x"]),
        txt("ab1/_#: é", max_size=5),
        st.text(UNICODE, max_size=5),
    )


def all_uri_prefixes(records) -> list[str]:
    return [u for r in records for u in [r["uri_prefix"], *r["uri_prefix_synonyms"]]]


def all_prefixes(records) -> list[str]:
    return [p for r in records for p in [r["prefix"], *r["prefix_synonyms"]]]


def boundary_uri_probes(records, idents=("1", "")) -> list[str]:
    """Deterministic probes around every registered URI prefix (exact, +-1 char, changed last char)."""
    out: list[str] = []
    for p in all_uri_prefixes(records):
        out.extend([p, p[:-1], p[:-1] + "~", p + "~", "~" + p])
        for i in idents:
            out.append(p + i)
        if p:
            out.append(p + "1?see=" + p + "2")  # the matched prefix occurs again inside the identifier
    seen, uniq = set(), []
    for u in out:
        if u not in seen:
            seen.add(u)
            uniq.append(u)
    return uniq


@st.composite
def uri_probes(draw, records, *, extra: int = 6, delimiter: str = ":"):
    """Boundary probes for every URI prefix + prefix⧺identifier + arbitrary strings."""
    ups = all_uri_prefixes(records)
    out = boundary_uri_probes(records)
    k = draw(st.integers(0, extra))
    for _ in range(k):
        mode = draw(st.integers(0, 3))
        if ups and mode <= 1:
            p = draw(st.sampled_from(ups))
            tail = draw(identifiers(delimiter))
            if mode == 1 and len(ups) > 1:
                # identifier that starts with (the tail of) another record's URI prefix
                q = draw(st.sampled_from(ups))
                tail = q[draw(st.integers(0, max(0, len(q) - 1))):] + tail
            out.append(p + tail)
        elif mode == 2:
            out.append(draw(txt(URI_ALPHA, max_size=7)))
        else:
            out.append(draw(st.text(UNICODE, max_size=6)))
    out.append("")
    return out


@st.composite
def curie_probes(draw, records, delimiter: str, *, extra: int = 8):
    """Known prefix/synonym + delimiter + identifier, unknown / case-varied prefixes, malformed strings."""
    ps = all_prefixes(records)
    out: list[str] = []
    for p in ps:
        out.append(p + delimiter + "1")
    k = draw(st.integers(0, extra))
    alpha = _minus(CURIE_ALPHA, delimiter)
    for _ in range(k):
        mode = draw(st.integers(0, 5))
        ident = draw(identifiers(delimiter))
        if ps and mode <= 2:
            p = draw(st.sampled_from(ps))
            if mode == 1:
                p = p.swapcase()
            elif mode == 2:
                p = p[:-1] if draw(st.booleans()) else p + draw(st.sampled_from(alpha))
            out.append(p + delimiter + ident)
        elif mode == 3:
            out.append(draw(txt(alpha, max_size=3)) + delimiter + ident)
        elif mode == 4:
            out.append(draw(txt(alpha + " ", max_size=5)))  # maybe delimiter-free
        else:
            out.append(draw(st.text(UNICODE, max_size=6)))
    out.extend(["", delimiter, "nodelim" if delimiter not in "nodelim" else "x"])
    return out


@st.composite
def scalar_cases(draw, tier="quick", *, prefix_free=None, ambiguous=False, max_records=None, prefix_no_delimiter=True):
    """spec + CURIE-ish strings + URI-ish strings, for the scalar-API properties (C03, C06, C07)."""
    big = tier == "thorough"
    d = draw(delimiters())
    pf = draw(st.booleans()) if prefix_free is None else prefix_free
    mr = max_records or (8 if big else 5)
    recs = draw(record_sets(delimiter=d, max_records=mr, max_syn=5 if big else 4, prefix_free=pf, allow_empty_uri=not pf, prefix_no_delimiter=prefix_no_delimiter, foreign_delimiters=True))
    if ambiguous and recs:
        # make strings that are CURIEs and URIs at once likely: a URI prefix equal to prefix+delimiter(+text),
        # and a CURIE prefix equal to the scheme of a URI prefix
        taken_u = set(all_uri_prefixes(recs))
        taken_p = set(all_prefixes(recs))
        for _ in range(draw(st.integers(1, 3))):
            r = draw(st.sampled_from(recs))
            mode = draw(st.integers(0, 3))
            if mode == 0:
                src = draw(st.sampled_from(recs))
                cand = draw(st.sampled_from([src["prefix"], *src["prefix_synonyms"]])) + d + draw(st.sampled_from(["", "a", "/"]))
                ok = cand not in taken_u and not (pf and any(cand.startswith(k) or k.startswith(cand) for k in taken_u))
                if ok:
                    r["uri_prefix_synonyms"].append(cand)
                    taken_u.add(cand)
            elif mode == 1 and d == ":":
                cand = "http"
                ups = "http://" + draw(st.sampled_from(["h/", "x/a_", ""]))
                if cand not in taken_p:
                    r["prefix_synonyms"].append(cand)
                    taken_p.add(cand)
                if ups not in taken_u and not (pf and any(ups.startswith(k) or k.startswith(ups) for k in taken_u)):
                    draw(st.sampled_from(recs))["uri_prefix_synonyms"].append(ups)
                    taken_u.add(ups)
            elif mode == 2:
                # a URI prefix that is exactly another record's CURIE prefix + delimiter
                src = draw(st.sampled_from(recs))
                cand = src["prefix"] + d
                if cand not in taken_u and not (pf and any(cand.startswith(k) or k.startswith(cand) for k in taken_u)):
                    r["uri_prefix_synonyms"].append(cand)
                    taken_u.add(cand)
    cur = draw(curie_probes(recs, d, extra=10 if big else 6))
    uri = draw(uri_probes(recs, extra=8 if big else 5, delimiter=d))
    # recognised URIs written through every registered URI prefix, with identifiers that start with other prefixes' tails
    ups = all_uri_prefixes(recs)
    for p in ups[: 8 if big else 5]:
        uri.append(p + draw(identifiers(d)))
    return {"spec": {"delimiter": d, "records": recs}, "curies": cur, "uris": uri, "prefix_free_requested": pf}
