"""Import-time shim: python-multipart is absent from this sealed sandbox (not in /venv, not in the wheelhouse).

FastAPI refuses to *build* a route with a Form(...) parameter unless `python_multipart` can be imported, which would
make curies' FastAPI mapping app unconstructible. This shim only satisfies that import check so that FastAPI GET can be
exercised; real form parsing (FastAPI POST) is NOT provided and is not checked. It is put on sys.path only when the real
package is missing (pbt/props/c18.py:_ensure_multipart_shim)."""
__version__ = "0.0.20"
