#!/usr/bin/env bash
# MANIFEST.setup_cmd: offline only. Makes sure hypothesis is importable by /venv/bin/python and puts
# atheris (optional, thorough-tier fuzz stage) into /verif/.deps. Nothing is fetched from a network.
set -u
here="$(cd "$(dirname "${BASH_SOURCE[0]}")" && pwd)"
PY="${VERIF_PYTHON:-/venv/bin/python}"
WH=/opt/veriftools/wheels
export PIP_NO_INDEX=1 PIP_DISABLE_PIP_VERSION_CHECK=1
if ! "$PY" -c 'import hypothesis' 2>/dev/null; then
  "$PY" -m pip install --no-index --find-links "$WH" hypothesis || { echo "setup: cannot install hypothesis" >&2; exit 1; }
fi
if ! PYTHONPATH="$here/.deps" "$PY" -c 'import atheris' 2>/dev/null; then
  "$PY" -m pip install --no-index --find-links "$WH" --target "$here/.deps" atheris >/dev/null 2>&1 \
    || echo "setup: atheris not installable; the optional fuzz stage will be skipped"
fi
"$PY" -c 'import hypothesis, curies; print("setup ok: hypothesis", hypothesis.__version__, "curies from", curies.__file__)'
